/-
  C04, static facts: what the model assumes about the library's sources, re-extracted from
  /repo by tools/facts on every check (GoFlags/Generated/Facts.lean) and compared here.
  A theorem of this file that no longer closes means: the source changed in a way the model
  was not written against (not by itself a violation; the check then searches for an input).
-/
import GoFlags.Generated.Facts
import GoFlags.Decl

namespace GoFlags.C04
open GoFlags

/-- the Go name of each error type of the model -/
def goName : ErrType → String
  | .unknown => "ErrUnknown" | .expectedArgument => "ErrExpectedArgument" | .unknownFlag => "ErrUnknownFlag"
  | .unknownGroup => "ErrUnknownGroup" | .marshal => "ErrMarshal" | .help => "ErrHelp"
  | .noArgumentForBool => "ErrNoArgumentForBool" | .required => "ErrRequired"
  | .shortNameTooLong => "ErrShortNameTooLong" | .duplicatedFlag => "ErrDuplicatedFlag" | .tag => "ErrTag"
  | .commandRequired => "ErrCommandRequired" | .unknownCommand => "ErrUnknownCommand"
  | .invalidChoice => "ErrInvalidChoice" | .invalidTag => "ErrInvalidTag"

/-- every error type of the model is a constant of the library, with the model's code -/
theorem facts_error_types_of_model_exist (t : ErrType) :
    Generated.consts_ErrorType.lookup (goName t) = some (t.code : Int) := by
  cases t <;> decide

/-- … and the library declares no error type the model does not have -/
theorem facts_error_types_are_the_models :
    Generated.consts_ErrorType.map (·.1) =
      [ErrType.unknown, .expectedArgument, .unknownFlag, .unknownGroup, .marshal, .help, .noArgumentForBool,
       .required, .shortNameTooLong, .duplicatedFlag, .tag, .commandRequired, .unknownCommand,
       .invalidChoice, .invalidTag].map goName := by decide

/-- The process is terminated in exactly one place: completion mode inside `ParseArgs`
    (outside the quantifier of C04); parsing proper never calls `os.Exit`. -/
theorem facts_only_completion_exits :
    Generated.exitCallCount = 1 ∧ Generated.exitCalls.map (·.1) = ["Parser.ParseArgs"] := by decide

/-- Explicit panics exist only in `scanType` (a declaration that is not a struct pointer: a
    programming error at setup, modelled as a build error of the case) and in `WriteManPage`
    (a malformed SOURCE_DATE_EPOCH); none on the parse path. -/
theorem facts_explicit_panics :
    Generated.panicCallCount = 3 := by decide

/-- The standard streams are mentioned only by `printError` — the one write the model's
    `output_discipline` theorem speaks about. -/
theorem facts_streams_only_in_printError :
    Generated.stdStreams = ["os.Stderr", "os.Stdout"] := by decide

/-- No goroutine is started anywhere: parsing is sequential, as the model is. -/
theorem facts_no_goroutines : Generated.goStatements = [] := by decide

/-- the parser option bits the cases are written in (Driver/Case `parsePOpts`) -/
theorem facts_parser_option_bits :
    Generated.consts_Options = [("None", 0)] ∧
    Generated.intConsts.lookup "HelpFlag" = some 2 ∧ Generated.intConsts.lookup "PassDoubleDash" = some 4 ∧
    Generated.intConsts.lookup "IgnoreUnknown" = some 8 ∧ Generated.intConsts.lookup "PrintErrors" = some 16 ∧
    Generated.intConsts.lookup "PassAfterNonOption" = some 32 ∧ Generated.intConsts.lookup "Default" = some 22 := by
  decide

/-- the source files the build selects: exactly the ones the model covers (Unix option style) -/
theorem facts_source_files :
    Generated.sourceFiles =
      ["arg.go", "closest.go", "command.go", "completion.go", "convert.go", "error.go", "flags.go", "group.go",
       "help.go", "ini.go", "man.go", "multitag.go", "option.go", "optstyle_other.go", "parser.go",
       "termsize.go"] := by decide

end GoFlags.C04
