/-
  C16, translation tie: `manQuote` and `manQuoteLines` (man.go), TRANSLATED from /repo's source on every check
  (tools/golean -> Generated/Trans.lean), never panic and compute the model's `manQuote` — which the model
  uses for both: quoting line by line and joining with line feeds is quoting the whole.
-/
import GoFlags.Generated.Trans
import GoFlags.Man
import GoFlags.Lemmas.GoSem

namespace GoFlags.C16
open GoFlags Bytes Generated

theorem replaceAll_backslash : ∀ (n : Nat) (s : Bytes), s.length ≤ n →
    Go.stringsReplaceAllFuel [92] [92, 92] n s = manQuote s := by
  intro n
  induction n with
  | zero => intro s h; have : s = [] := by cases s <;> simp_all
            subst this; simp [Go.stringsReplaceAllFuel, manQuote]
  | succ n ih =>
    intro s h
    cases s with
    | nil => simp [Go.stringsReplaceAllFuel, manQuote]
    | cons a t =>
      have ht : t.length ≤ n := by simp at h; omega
      by_cases ha : a = 92
      · subst ha
        simp [Go.stringsReplaceAllFuel, hasPrefix, manQuote, ih t ht]
      · simp [Go.stringsReplaceAllFuel, hasPrefix, ha, manQuote, ih t ht]

/-- `manQuote` as translated from man.go is the model's function -/
theorem trans_manQuote (s : Bytes) : go_manQuote s = some (manQuote s) := by
  unfold go_manQuote Go.stringsReplaceAll
  simp [replaceAll_backslash s.length s (Nat.le_refl _)]

theorem manQuote_append (a b : Bytes) : manQuote (a ++ b) = manQuote a ++ manQuote b := by
  simp [manQuote]

theorem splitOn_cons_form (c : Nat) (s : Bytes) : ∃ p ps, splitOn c s = p :: ps := by
  induction s with
  | nil => exact ⟨[], [], rfl⟩
  | cons a t ih =>
    obtain ⟨p, ps, h⟩ := ih
    by_cases ha : a = c
    · exact ⟨[], splitOn c t, by simp [splitOn, ha]⟩
    · exact ⟨a :: p, ps, by simp [splitOn, ha, h]⟩

theorem join_cons_append (sep x y : Bytes) (rest : List Bytes) :
    join sep ((x ++ y) :: rest) = x ++ join sep (y :: rest) := by
  cases rest <;> simp [join]

/-- quoting line by line and joining with line feeds is quoting the whole (a line feed is no backslash) -/
theorem join_map_manQuote (s : Bytes) : join [10] ((splitOn 10 s).map manQuote) = manQuote s := by
  induction s with
  | nil => simp [splitOn, join, manQuote]
  | cons a t ih =>
    obtain ⟨p, ps, h⟩ := splitOn_cons_form 10 t
    rw [h] at ih
    by_cases ha : a = 10
    · subst ha
      simp only [splitOn, if_true, List.map_cons, h] at ih ⊢
      simp only [join]
      rw [ih]
      simp [manQuote]
    · simp only [splitOn, ha, if_false, h, List.map_cons] at ih ⊢
      have : manQuote (a :: p) = manQuote [a] ++ manQuote p := by
        rw [← manQuote_append]; rfl
      rw [this, join_cons_append, ih]
      rw [← manQuote_append]; rfl

/-- the loop of `manQuoteLines` quotes every line -/
theorem manQuoteLines_loop (xs acc : List Bytes) (i : Int) :
    Go.forRangeFrom go_manQuoteLines_loop1 xs i acc = some (Go.LoopR.next (acc ++ xs.map manQuote)) := by
  induction xs generalizing acc i with
  | nil => simp [Go.forRangeFrom]
  | cons x xs ih =>
    simp only [Go.forRangeFrom, go_manQuoteLines_loop1, trans_manQuote, bind, Option.bind, pure]
    rw [ih]
    simp

/-- `manQuoteLines` as translated from man.go is the model's `manQuote` (which the model uses for both) -/
theorem trans_manQuoteLines (s : Bytes) : go_manQuoteLines s = some (manQuote s) := by
  unfold go_manQuoteLines Go.forRange
  simp only [bind, Option.bind, pure, manQuoteLines_loop, List.nil_append]
  rw [join_map_manQuote]


end GoFlags.C16
