/-
  C08 — Command selection and option scoping.
-/
import GoFlags.Props.C07

namespace GoFlags.C08
open GoFlags Bytes

/-- **Innermost declaration wins.** If the innermost command of the context declares the name,
    the lookup answers with an option of that command, whatever its ancestors declare. -/
theorem innermost_wins (P : Parser) (ci : Nat) (name : Bytes) (r0 : ORef)
    (hlast : (P.chain ci).reverse.head? = some ci)
    (hr0 : r0 ∈ (P.cmd ci).orefs ci) (hm : (P.opt r0).long ≠ [] ∧ P.longNS r0 = name) :
    ∃ r, P.lookupLong ci name = some r ∧ r.c = ci := by
  unfold Parser.lookupLong
  cases hrev : (P.chain ci).reverse with
  | nil => rw [hrev] at hlast; simp at hlast
  | cons a t =>
    rw [hrev] at hlast
    have ha : a = ci := by simpa using hlast
    subst ha
    simp only [List.findSome?_cons]
    have hex : ((P.cmd a).orefs a).reverse.find? (fun r => (P.opt r).long ≠ [] && P.longNS r = name) ≠ none := by
      rw [ne_eq, List.find?_eq_none]
      intro hall
      exact absurd (hall r0 (by simpa using hr0)) (by simp [hm.1, hm.2])
    cases hf : ((P.cmd a).orefs a).reverse.find? (fun r => (P.opt r).long ≠ [] && P.longNS r = name) with
    | none => exact absurd hf hex
    | some r =>
      refine ⟨r, by simp, ?_⟩
      have hmem := List.mem_of_find?_eq_some hf
      have : r ∈ (P.cmd a).orefs a := by simpa using hmem
      unfold Cmd.orefs at this
      simp only [List.mem_flatMap, List.mem_map] at this
      obtain ⟨⟨g, gi⟩, _, oi, _, rfl⟩ := this
      rfl

/-- **Ancestors' options stay accepted**: a name declared by some command of the chain (and not
    redeclared deeper) is found from the innermost context. -/
theorem ancestor_options_stay_in_scope (P : Parser) (ci : Nat) (name : Bytes)
    (h : ∃ a ∈ P.chain ci, ∃ r ∈ (P.cmd a).orefs a, (P.opt r).long ≠ [] ∧ P.longNS r = name) :
    ∃ r, P.lookupLong ci name = some r := by
  obtain ⟨a, ha, r, hr, hm⟩ := h
  cases hl : P.lookupLong ci name with
  | some r' => exact ⟨r', rfl⟩
  | none =>
    exfalso
    unfold Parser.lookupLong at hl
    rw [List.findSome?_eq_none_iff] at hl
    have := hl a (by simpa using ha)
    rw [List.find?_eq_none] at this
    have := this r (by simpa using hr)
    simp [hm.1, hm.2] at this

/-- **A command word is resolved among the subcommands of the command active at that point, by
    name or by any alias, interchangeably.** -/
theorem command_lookup_sound (P : Parser) (ci : Nat) (word : Bytes) (sub : Nat)
    (h : P.lookupCmd ci word = some sub) :
    sub ∈ P.subs ci ∧ ((P.cmd sub).name = word ∨ word ∈ (P.cmd sub).aliases) := by
  unfold Parser.lookupCmd at h
  have hmem := List.mem_of_find?_eq_some h
  have hp := List.find?_some h
  refine ⟨by simpa using hmem, ?_⟩
  simpa using hp

theorem command_lookup_complete (P : Parser) (ci : Nat) (word : Bytes) (sub : Nat) (hs : sub ∈ P.subs ci)
    (h : (P.cmd sub).name = word ∨ word ∈ (P.cmd sub).aliases) :
    ∃ s', P.lookupCmd ci word = some s' := by
  cases hl : P.lookupCmd ci word with
  | some s' => exact ⟨s', rfl⟩
  | none =>
    exfalso
    unfold Parser.lookupCmd at hl
    rw [List.find?_eq_none] at hl
    have := hl sub (by simpa using hs)
    rcases h with h | h <;> simp [h] at this

/-- a word that names no subcommand: an error when a command is required, an ordinary argument
    when subcommands are optional (both outcomes stop / continue the loop as `parseNonOption` says) -/
theorem unknown_word (E : Env) (s : PS) (hpos : s.positional = []) (hsub : s.P.subs s.cmd ≠ []) (hret : s.retargs = [])
    (hl : s.P.lookupCmd s.cmd s.arg = none) :
    ((s.P.cmd s.cmd).subOpt = false → (parseNonOption E s).2 = true ∧ (parseNonOption E s).1.retargs = [s.arg]) ∧
    ((s.P.cmd s.cmd).subOpt = true → (parseNonOption E s).2 = false ∧ (parseNonOption E s).1.retargs = [s.arg]) := by
  have hadd : s.addArgs E [s.arg] = ({ s with retargs := s.retargs ++ [s.arg] }, none) := by
    simp [PS.addArgs, hpos]
  unfold parseNonOption
  simp only [hpos, ne_eq, not_true_eq_false, if_false, hsub, not_false_eq_true, hret, hl, hadd]
  constructor <;> intro h <;> simp [h]

/-- a recognised command word activates that command: its options and positionals come into
    scope, and it is recorded as `Active` of its parent -/
theorem known_word_activates (E : Env) (s : PS) (sub : Nat) (hpos : s.positional = [])
    (hsub : s.P.subs s.cmd ≠ []) (hret : s.retargs = []) (hl : s.P.lookupCmd s.cmd s.arg = some sub) :
    (parseNonOption E s).2 = false ∧ (parseNonOption E s).1.cmd = sub ∧ (parseNonOption E s).1.retargs = [] := by
  unfold parseNonOption
  simp [hpos, hsub, hret, hl, PS.fill]

/-- the diagnostics of a missing / unrecognised required command are C04.command_rejection_is_typed -/
theorem command_required_error (s : PS) (h : s.retargs = []) :
    ∃ m, estimateCommand s = .flags .commandRequired m := by
  unfold estimateCommand; simp [h]

theorem unknown_command_error (s : PS) (w : Bytes) (rest : List Bytes) (h : s.retargs = w :: rest) :
    ∃ m, estimateCommand s = .flags .unknownCommand m := by
  unfold estimateCommand; simp [h]

end GoFlags.C08
