/-
  C08 — Command selection and option scoping.
-/
import GoFlags.Props.C07
import GoFlags.Lemmas.Decl
import GoFlags.Lemmas.ActivePath

namespace GoFlags.C08
open GoFlags Bytes

/-- **Innermost declaration wins.** If the innermost command of the context declares the name,
    the lookup answers with an option of that command, whatever its ancestors declare. -/
theorem innermost_wins (P : Parser) (ci : Nat) (name : Bytes) (r0 : ORef)
    (hlast : (P.chain ci).reverse.head? = some ci)
    (hr0 : r0 ∈ (P.cmd ci).orefs ci) (hm : (P.opt r0).long ≠ [] ∧ P.longNS r0 = name) :
    ∃ r, P.lookupLong ci name = some r ∧ r.c = ci := by
  unfold Parser.lookupLong
  cases hrev : (P.chain ci).reverse with
  | nil => rw [hrev] at hlast; simp at hlast
  | cons a t =>
    rw [hrev] at hlast
    have ha : a = ci := by simpa using hlast
    subst ha
    simp only [List.findSome?_cons]
    have hex : ((P.cmd a).orefs a).reverse.find? (fun r => (P.opt r).long ≠ [] && P.longNS r = name) ≠ none := by
      rw [ne_eq, List.find?_eq_none]
      intro hall
      exact absurd (hall r0 (by simpa using hr0)) (by simp [hm.1, hm.2])
    cases hf : ((P.cmd a).orefs a).reverse.find? (fun r => (P.opt r).long ≠ [] && P.longNS r = name) with
    | none => exact absurd hf hex
    | some r =>
      refine ⟨r, by simp, ?_⟩
      have hmem := List.mem_of_find?_eq_some hf
      have : r ∈ (P.cmd a).orefs a := by simpa using hmem
      unfold Cmd.orefs at this
      simp only [List.mem_flatMap, List.mem_map] at this
      obtain ⟨⟨g, gi⟩, _, oi, _, rfl⟩ := this
      rfl

/-- **Ancestors' options stay accepted**: a name declared by some command of the chain (and not
    redeclared deeper) is found from the innermost context. -/
theorem ancestor_options_stay_in_scope (P : Parser) (ci : Nat) (name : Bytes)
    (h : ∃ a ∈ P.chain ci, ∃ r ∈ (P.cmd a).orefs a, (P.opt r).long ≠ [] ∧ P.longNS r = name) :
    ∃ r, P.lookupLong ci name = some r := by
  obtain ⟨a, ha, r, hr, hm⟩ := h
  cases hl : P.lookupLong ci name with
  | some r' => exact ⟨r', rfl⟩
  | none =>
    exfalso
    unfold Parser.lookupLong at hl
    rw [List.findSome?_eq_none_iff] at hl
    have := hl a (by simpa using ha)
    rw [List.find?_eq_none] at this
    have := this r (by simpa using hr)
    simp [hm.1, hm.2] at this

/-- **A command word is resolved among the subcommands of the command active at that point, by
    name or by any alias, interchangeably.** -/
theorem command_lookup_sound (P : Parser) (ci : Nat) (word : Bytes) (sub : Nat)
    (h : P.lookupCmd ci word = some sub) :
    sub ∈ P.subs ci ∧ ((P.cmd sub).name = word ∨ word ∈ (P.cmd sub).aliases) := by
  unfold Parser.lookupCmd at h
  have hmem := List.mem_of_find?_eq_some h
  have hp := List.find?_some h
  refine ⟨by simpa using hmem, ?_⟩
  simpa using hp

theorem command_lookup_complete (P : Parser) (ci : Nat) (word : Bytes) (sub : Nat) (hs : sub ∈ P.subs ci)
    (h : (P.cmd sub).name = word ∨ word ∈ (P.cmd sub).aliases) :
    ∃ s', P.lookupCmd ci word = some s' := by
  cases hl : P.lookupCmd ci word with
  | some s' => exact ⟨s', rfl⟩
  | none =>
    exfalso
    unfold Parser.lookupCmd at hl
    rw [List.find?_eq_none] at hl
    have := hl sub (by simpa using hs)
    rcases h with h | h <;> simp [h] at this

/-- a word that names no subcommand: an error when a command is required, an ordinary argument
    when subcommands are optional (both outcomes stop / continue the loop as `parseNonOption` says) -/
theorem unknown_word (E : Env) (s : PS) (hpos : s.positional = []) (hsub : s.P.subs s.cmd ≠ []) (hret : s.retargs = [])
    (hl : s.P.lookupCmd s.cmd s.arg = none) :
    ((s.P.cmd s.cmd).subOpt = false → (parseNonOption E s).2 = true ∧ (parseNonOption E s).1.retargs = [s.arg]) ∧
    ((s.P.cmd s.cmd).subOpt = true → (parseNonOption E s).2 = false ∧ (parseNonOption E s).1.retargs = [s.arg]) := by
  have hadd : s.addArgs E [s.arg] = ({ s with retargs := s.retargs ++ [s.arg] }, none) := by
    simp [PS.addArgs, hpos]
  unfold parseNonOption
  simp only [hpos, ne_eq, not_true_eq_false, if_false, hsub, not_false_eq_true, hret, hl, hadd]
  constructor <;> intro h <;> simp [h]

/-- a recognised command word activates that command: its options and positionals come into
    scope, and it is recorded as `Active` of its parent -/
theorem known_word_activates (E : Env) (s : PS) (sub : Nat) (hpos : s.positional = [])
    (hsub : s.P.subs s.cmd ≠ []) (hret : s.retargs = []) (hl : s.P.lookupCmd s.cmd s.arg = some sub) :
    (parseNonOption E s).2 = false ∧ (parseNonOption E s).1.cmd = sub ∧ (parseNonOption E s).1.retargs = [] := by
  unfold parseNonOption
  simp [hpos, hsub, hret, hl, PS.fill]

/-- the diagnostics of a missing / unrecognised required command are C04.command_rejection_is_typed -/
theorem command_required_error (s : PS) (h : s.retargs = []) :
    ∃ m, estimateCommand s = .flags .commandRequired m := by
  unfold estimateCommand; simp [h]

theorem unknown_command_error (s : PS) (w : Bytes) (rest : List Bytes) (h : s.retargs = w :: rest) :
    ∃ m, estimateCommand s = .flags .unknownCommand m := by
  unfold estimateCommand; simp [h]



/-! ### The active chain is decided by this call alone (after the D26 repair) -/

def Cmd.noActive (c : Cmd) : Cmd := { c with active := none }

/-- the parser with the `Active` links of an earlier call erased -/
def Parser.forgetActive (P : Parser) : Parser := { P with cmds := P.cmds.map Cmd.noActive }

theorem listModify_map_comm {α β} (l : List α) (i : Nat) (f : α → α) (f' : β → β) (g : α → β)
    (h : ∀ a, g (f a) = f' (g a)) : (listModify l i f).map g = listModify (l.map g) i f' := by
  induction l generalizing i with
  | nil => simp [listModify]
  | cons a r ih =>
    cases i with
    | zero => simp [listModify, h]
    | succ i => simp [listModify, ih]

theorem forgetActive_idem (P : Parser) : (Parser.forgetActive (Parser.forgetActive P)) = Parser.forgetActive P := by
  unfold Parser.forgetActive
  simp [List.map_map, Function.comp_def, Cmd.noActive]

theorem forgetActive_modOpt (P : Parser) (r : ORef) (f : Opt → Opt) :
    Parser.forgetActive (P.modOpt r f) = (Parser.forgetActive P).modOpt r f := by
  unfold Parser.forgetActive Parser.modOpt Parser.modCmd
  simp only
  congr 1
  apply listModify_map_comm
  intro c
  rfl

theorem forgetActive_cmd (P : Parser) (i : Nat) : (Parser.forgetActive P).cmd i = Cmd.noActive (P.cmd i) := by
  unfold Parser.forgetActive Parser.cmd
  have : ({} : Cmd) = Cmd.noActive {} := rfl
  rw [this]
  exact getD_map_default _ _ _ _

theorem forgetActive_opt (P : Parser) (r : ORef) : (Parser.forgetActive P).opt r = P.opt r := by
  unfold Parser.opt
  rw [forgetActive_cmd]
  rfl

theorem forgetActive_allORefs (P : Parser) : (Parser.forgetActive P).allORefs = P.allORefs := by
  unfold Parser.allORefs Parser.forgetActive
  simp only
  rw [List.zipIdx_map]
  simp only [List.flatMap_map]
  rfl

theorem forgetActive_addHelpGroups (P : Parser) :
    Parser.forgetActive P.addHelpGroups = (Parser.forgetActive P).addHelpGroups := by
  unfold Parser.forgetActive Parser.addHelpGroups
  simp only [List.map_map]
  congr 1
  apply List.map_congr_left
  intro c _
  simp only [Function.comp, Cmd.noActive]
  by_cases h : c.hasBuiltinHelp = true
  · simp only [h, if_true]
  · simp only [h, if_false]; rfl

theorem foldl_modOpt_forgetActive (g : Opt → Opt) (rs : List ORef) (P : Parser) :
    Parser.forgetActive (rs.foldl (fun P r => P.modOpt r g) P) =
      rs.foldl (fun P r => P.modOpt r g) (Parser.forgetActive P) := by
  induction rs generalizing P with
  | nil => rfl
  | cons r rs ih =>
    simp only [List.foldl_cons]
    rw [ih, forgetActive_modOpt]

/-- what `ParseArgs` starts from does not depend on the `Active` links an earlier call left -/
theorem prepare_forgetActive (E : Env) (P : Parser) : prepare E (Parser.forgetActive P) = prepare E P := by
  have key : ∀ Q : Parser, ({ Q with cmds := Q.cmds.map fun c => { c with active := none } } : Parser) = Parser.forgetActive Q := fun _ => rfl
  unfold prepare
  simp only [key, forgetActive_allORefs]
  rw [← foldl_modOpt_forgetActive]
  have hopts : ∀ Q : Parser, (Parser.forgetActive Q).opts = Q.opts := fun _ => rfl
  rw [hopts]
  split
  · rw [← forgetActive_addHelpGroups, forgetActive_idem]
  · rw [forgetActive_idem]

/-- **The outcome of a call does not depend on the active chain an earlier call selected**: the
    returned arguments, the error, every option value, the log and the active chain afterwards are
    those of the same parser with no command active beforehand - for every declaration, every
    argument vector and whatever links the parser carries. -/
theorem outcome_independent_of_earlier_active_chain (E : Env) (help : HelpFn) (P : Parser) (argv : List Bytes)
    (hi : P.internalError = none) :
    parseArgs E help (Parser.forgetActive P) argv = parseArgs E help P argv := by
  unfold parseArgs
  have : (Parser.forgetActive P).internalError = P.internalError := rfl
  rw [this, hi]
  simp only
  rw [prepare_forgetActive]


/-- **After a call the active chain is the path of the commands this call selected**: it starts at
    the parser, climbs strictly (each member was selected after the one before it), and ends at the
    innermost command the argument vector reached — whatever links an earlier call left behind, for
    every declaration and every argument vector. -/
theorem active_chain_is_the_selected_path (E : Env) (help : HelpFn) (P : Parser) (argv : List Bytes)
    (h0 : 0 < P.cmds.length) (hr : SubsInRange P) (hi : P.internalError = none) :
    ∃ path, (parseArgs E help P argv).P.activeChain = path ∧ path.head? = some 0 ∧ path.Pairwise (· < ·) ∧
      path.getLast? = some (parsePhase E help (prepare E P) argv).cmd := by
  have hlen : (prepare E P).cmds.length = P.cmds.length := by
    have := congrArg List.length (prepare_cmdSizes E P)
    simpa [Parser.cmdSizes] using this
  have hr' : SubsInRange (prepare E P) := by
    intro i j hj
    unfold Parser.subs at hj
    rw [prepare_cmdSizes] at hj
    rw [hlen]
    exact hr i j hj
  -- the start: nothing is active, the root is reached
  have hstart : (({ P := prepare E P, args := argv } : PS).fill 0).Selected [0] := by
    refine ⟨rfl, rfl, ?_, by simp, ?_, ?_⟩
    · exact prepare_actives E P 0
    · intro x hx
      simp at hx; subst hx
      show 0 < (prepare E P).actives.length
      rw [Parser.actives_length, hlen]; exact h0
    · intro i _
      exact prepare_actives E P i
  obtain ⟨path, hsel, _⟩ := parseLoop_selected E help (4 * argv.length + 16) _ [0] hstart hr'
  -- the defaults phase and the required check leave selection alone
  have hphase : (parsePhase E help (prepare E P) argv).Selected path := by
    unfold parsePhase
    simp only
    split
    · obtain ⟨hcP, hcc⟩ := checkRequired_act (clearDefaultsAll E help (parseLoop E help (4 * argv.length + 16) (({ P := prepare E P, args := argv } : PS).fill 0)).P.allORefs
        (parseLoop E help (4 * argv.length + 16) (({ P := prepare E P, args := argv } : PS).fill 0)))
      obtain ⟨hdP, hdc⟩ := clearDefaultsAll_act E help (parseLoop E help (4 * argv.length + 16) (({ P := prepare E P, args := argv } : PS).fill 0)).P.allORefs
        (parseLoop E help (4 * argv.length + 16) (({ P := prepare E P, args := argv } : PS).fill 0))
      exact (hsel.congr hdP hdc).congr (by rw [hcP]) hcc
    · exact hsel
  refine ⟨path, ?_, hphase.head, hphase.incr, hphase.last⟩
  have hP : (parseArgs E help P argv).P = (parsePhase E help (prepare E P) argv).P := by
    unfold parseArgs
    rw [hi]
    simp only
    unfold finishParse
    split <;> rfl
  rw [hP]
  exact activeChain_of_selected _ path hphase


/-! non-vacuity: a parser with one subcommand meets the hypotheses -/
def exTree : Parser := { cmds := [{ size := 2 }, { name := B "sub", size := 1 }] }
example : 0 < exTree.cmds.length ∧ SubsInRange exTree ∧ exTree.subs 0 = [1] := by
  refine ⟨by decide, ?_, by decide⟩
  intro i j hj
  have hi : i = 0 ∨ i = 1 ∨ 2 ≤ i := by omega
  rcases hi with rfl | rfl | hi
  · have : exTree.subs 0 = [1] := by decide
    rw [this] at hj; simp at hj; subst hj; decide
  · have : exTree.subs 1 = [] := by decide
    rw [this] at hj; simp at hj
  · exfalso
    unfold Parser.subs childrenOf at hj
    simp only [List.mem_filter, List.mem_range'_1] at hj
    have : exTree.cmdSizes.getD i 1 = 1 := by
      unfold Parser.cmdSizes exTree
      simp [List.getD_eq_getElem?_getD]
      rw [List.getElem?_eq_none (by simp; omega)]; rfl
    omega

end GoFlags.C08
