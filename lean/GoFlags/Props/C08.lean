/-
  C08 — Command selection and option scoping.
-/
import GoFlags.Props.C07
import GoFlags.Lemmas.Decl

namespace GoFlags.C08
open GoFlags Bytes

/-- **Innermost declaration wins.** If the innermost command of the context declares the name,
    the lookup answers with an option of that command, whatever its ancestors declare. -/
theorem innermost_wins (P : Parser) (ci : Nat) (name : Bytes) (r0 : ORef)
    (hlast : (P.chain ci).reverse.head? = some ci)
    (hr0 : r0 ∈ (P.cmd ci).orefs ci) (hm : (P.opt r0).long ≠ [] ∧ P.longNS r0 = name) :
    ∃ r, P.lookupLong ci name = some r ∧ r.c = ci := by
  unfold Parser.lookupLong
  cases hrev : (P.chain ci).reverse with
  | nil => rw [hrev] at hlast; simp at hlast
  | cons a t =>
    rw [hrev] at hlast
    have ha : a = ci := by simpa using hlast
    subst ha
    simp only [List.findSome?_cons]
    have hex : ((P.cmd a).orefs a).reverse.find? (fun r => (P.opt r).long ≠ [] && P.longNS r = name) ≠ none := by
      rw [ne_eq, List.find?_eq_none]
      intro hall
      exact absurd (hall r0 (by simpa using hr0)) (by simp [hm.1, hm.2])
    cases hf : ((P.cmd a).orefs a).reverse.find? (fun r => (P.opt r).long ≠ [] && P.longNS r = name) with
    | none => exact absurd hf hex
    | some r =>
      refine ⟨r, by simp, ?_⟩
      have hmem := List.mem_of_find?_eq_some hf
      have : r ∈ (P.cmd a).orefs a := by simpa using hmem
      unfold Cmd.orefs at this
      simp only [List.mem_flatMap, List.mem_map] at this
      obtain ⟨⟨g, gi⟩, _, oi, _, rfl⟩ := this
      rfl

/-- **Ancestors' options stay accepted**: a name declared by some command of the chain (and not
    redeclared deeper) is found from the innermost context. -/
theorem ancestor_options_stay_in_scope (P : Parser) (ci : Nat) (name : Bytes)
    (h : ∃ a ∈ P.chain ci, ∃ r ∈ (P.cmd a).orefs a, (P.opt r).long ≠ [] ∧ P.longNS r = name) :
    ∃ r, P.lookupLong ci name = some r := by
  obtain ⟨a, ha, r, hr, hm⟩ := h
  cases hl : P.lookupLong ci name with
  | some r' => exact ⟨r', rfl⟩
  | none =>
    exfalso
    unfold Parser.lookupLong at hl
    rw [List.findSome?_eq_none_iff] at hl
    have := hl a (by simpa using ha)
    rw [List.find?_eq_none] at this
    have := this r (by simpa using hr)
    simp [hm.1, hm.2] at this

/-- **A command word is resolved among the subcommands of the command active at that point, by
    name or by any alias, interchangeably.** -/
theorem command_lookup_sound (P : Parser) (ci : Nat) (word : Bytes) (sub : Nat)
    (h : P.lookupCmd ci word = some sub) :
    sub ∈ P.subs ci ∧ ((P.cmd sub).name = word ∨ word ∈ (P.cmd sub).aliases) := by
  unfold Parser.lookupCmd at h
  have hmem := List.mem_of_find?_eq_some h
  have hp := List.find?_some h
  refine ⟨by simpa using hmem, ?_⟩
  simpa using hp

theorem command_lookup_complete (P : Parser) (ci : Nat) (word : Bytes) (sub : Nat) (hs : sub ∈ P.subs ci)
    (h : (P.cmd sub).name = word ∨ word ∈ (P.cmd sub).aliases) :
    ∃ s', P.lookupCmd ci word = some s' := by
  cases hl : P.lookupCmd ci word with
  | some s' => exact ⟨s', rfl⟩
  | none =>
    exfalso
    unfold Parser.lookupCmd at hl
    rw [List.find?_eq_none] at hl
    have := hl sub (by simpa using hs)
    rcases h with h | h <;> simp [h] at this

/-- a word that names no subcommand: an error when a command is required, an ordinary argument
    when subcommands are optional (both outcomes stop / continue the loop as `parseNonOption` says) -/
theorem unknown_word (E : Env) (s : PS) (hpos : s.positional = []) (hsub : s.P.subs s.cmd ≠ []) (hret : s.retargs = [])
    (hl : s.P.lookupCmd s.cmd s.arg = none) :
    ((s.P.cmd s.cmd).subOpt = false → (parseNonOption E s).2 = true ∧ (parseNonOption E s).1.retargs = [s.arg]) ∧
    ((s.P.cmd s.cmd).subOpt = true → (parseNonOption E s).2 = false ∧ (parseNonOption E s).1.retargs = [s.arg]) := by
  have hadd : s.addArgs E [s.arg] = ({ s with retargs := s.retargs ++ [s.arg] }, none) := by
    simp [PS.addArgs, hpos]
  unfold parseNonOption
  simp only [hpos, ne_eq, not_true_eq_false, if_false, hsub, not_false_eq_true, hret, hl, hadd]
  constructor <;> intro h <;> simp [h]

/-- a recognised command word activates that command: its options and positionals come into
    scope, and it is recorded as `Active` of its parent -/
theorem known_word_activates (E : Env) (s : PS) (sub : Nat) (hpos : s.positional = [])
    (hsub : s.P.subs s.cmd ≠ []) (hret : s.retargs = []) (hl : s.P.lookupCmd s.cmd s.arg = some sub) :
    (parseNonOption E s).2 = false ∧ (parseNonOption E s).1.cmd = sub ∧ (parseNonOption E s).1.retargs = [] := by
  unfold parseNonOption
  simp [hpos, hsub, hret, hl, PS.fill]

/-- the diagnostics of a missing / unrecognised required command are C04.command_rejection_is_typed -/
theorem command_required_error (s : PS) (h : s.retargs = []) :
    ∃ m, estimateCommand s = .flags .commandRequired m := by
  unfold estimateCommand; simp [h]

theorem unknown_command_error (s : PS) (w : Bytes) (rest : List Bytes) (h : s.retargs = w :: rest) :
    ∃ m, estimateCommand s = .flags .unknownCommand m := by
  unfold estimateCommand; simp [h]



/-! ### The active chain is decided by this call alone (after the D26 repair) -/

def Cmd.noActive (c : Cmd) : Cmd := { c with active := none }

/-- the parser with the `Active` links of an earlier call erased -/
def Parser.forgetActive (P : Parser) : Parser := { P with cmds := P.cmds.map Cmd.noActive }

theorem listModify_map_comm {α β} (l : List α) (i : Nat) (f : α → α) (f' : β → β) (g : α → β)
    (h : ∀ a, g (f a) = f' (g a)) : (listModify l i f).map g = listModify (l.map g) i f' := by
  induction l generalizing i with
  | nil => simp [listModify]
  | cons a r ih =>
    cases i with
    | zero => simp [listModify, h]
    | succ i => simp [listModify, ih]

theorem forgetActive_idem (P : Parser) : (Parser.forgetActive (Parser.forgetActive P)) = Parser.forgetActive P := by
  unfold Parser.forgetActive
  simp [List.map_map, Function.comp_def, Cmd.noActive]

theorem forgetActive_modOpt (P : Parser) (r : ORef) (f : Opt → Opt) :
    Parser.forgetActive (P.modOpt r f) = (Parser.forgetActive P).modOpt r f := by
  unfold Parser.forgetActive Parser.modOpt Parser.modCmd
  simp only
  congr 1
  apply listModify_map_comm
  intro c
  rfl

theorem forgetActive_cmd (P : Parser) (i : Nat) : (Parser.forgetActive P).cmd i = Cmd.noActive (P.cmd i) := by
  unfold Parser.forgetActive Parser.cmd
  have : ({} : Cmd) = Cmd.noActive {} := rfl
  rw [this]
  exact getD_map_default _ _ _ _

theorem forgetActive_opt (P : Parser) (r : ORef) : (Parser.forgetActive P).opt r = P.opt r := by
  unfold Parser.opt
  rw [forgetActive_cmd]
  rfl

theorem forgetActive_allORefs (P : Parser) : (Parser.forgetActive P).allORefs = P.allORefs := by
  unfold Parser.allORefs Parser.forgetActive
  simp only
  rw [List.zipIdx_map]
  simp only [List.flatMap_map]
  rfl

theorem forgetActive_addHelpGroups (P : Parser) :
    Parser.forgetActive P.addHelpGroups = (Parser.forgetActive P).addHelpGroups := by
  unfold Parser.forgetActive Parser.addHelpGroups
  simp only [List.map_map]
  congr 1
  apply List.map_congr_left
  intro c _
  simp only [Function.comp, Cmd.noActive]
  by_cases h : c.hasBuiltinHelp = true
  · simp only [h, if_true]
  · simp only [h, if_false]; rfl

theorem foldl_modOpt_forgetActive (g : Opt → Opt) (rs : List ORef) (P : Parser) :
    Parser.forgetActive (rs.foldl (fun P r => P.modOpt r g) P) =
      rs.foldl (fun P r => P.modOpt r g) (Parser.forgetActive P) := by
  induction rs generalizing P with
  | nil => rfl
  | cons r rs ih =>
    simp only [List.foldl_cons]
    rw [ih, forgetActive_modOpt]

/-- what `ParseArgs` starts from does not depend on the `Active` links an earlier call left -/
theorem prepare_forgetActive (E : Env) (P : Parser) : prepare E (Parser.forgetActive P) = prepare E P := by
  have key : ∀ Q : Parser, ({ Q with cmds := Q.cmds.map fun c => { c with active := none } } : Parser) = Parser.forgetActive Q := fun _ => rfl
  unfold prepare
  simp only [key, forgetActive_allORefs]
  rw [← foldl_modOpt_forgetActive]
  have hopts : ∀ Q : Parser, (Parser.forgetActive Q).opts = Q.opts := fun _ => rfl
  rw [hopts]
  split
  · rw [← forgetActive_addHelpGroups, forgetActive_idem]
  · rw [forgetActive_idem]

/-- **The outcome of a call does not depend on the active chain an earlier call selected**: the
    returned arguments, the error, every option value, the log and the active chain afterwards are
    those of the same parser with no command active beforehand - for every declaration, every
    argument vector and whatever links the parser carries. -/
theorem outcome_independent_of_earlier_active_chain (E : Env) (help : HelpFn) (P : Parser) (argv : List Bytes)
    (hi : P.internalError = none) :
    parseArgs E help (Parser.forgetActive P) argv = parseArgs E help P argv := by
  unfold parseArgs
  have : (Parser.forgetActive P).internalError = P.internalError := rfl
  rw [this, hi]
  simp only
  rw [prepare_forgetActive]

end GoFlags.C08
