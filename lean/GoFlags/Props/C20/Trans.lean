/-
  C20, translation tie: `closestChoice` (closest.go), TRANSLATED from /repo's source on every check
  (tools/golean -> Generated/Trans.lean), never panics and returns the model's choice and distance.
-/
import GoFlags.Generated.Trans
import GoFlags.Closest
import GoFlags.Lemmas.GoSem

namespace GoFlags.C20
open GoFlags Bytes Generated

theorem ccLoop (cmd : Bytes) (choices : List Bytes) :
    ∀ (xs pre : List Bytes) (best : Bytes) (d : Nat) (k : Nat),
      choices = pre ++ xs → choices[k]? = some best →
      (∀ c ∈ xs, go_levenshtein cmd c = some (levenshtein cmd c : Int)) →
      ∃ k' : Nat, Go.forRangeFrom (go_closestChoice_loop1 cmd) xs pre.length ((d : Int), (k : Int)) =
          some (Go.LoopR.next (((closestLoop cmd xs best d).2 : Int), (k' : Int))) ∧
        choices[k']? = some (closestLoop cmd xs best d).1 := by
  intro xs
  induction xs with
  | nil => intro pre best d k _ hk _; exact ⟨k, by simp [Go.forRangeFrom, closestLoop], by simpa [closestLoop] using hk⟩
  | cons x xs ih =>
    intro pre best d k hc hk hl
    have hx := hl x (by simp)
    have hl' : ∀ c ∈ xs, go_levenshtein cmd c = some (levenshtein cmd c : Int) := fun c hc => hl c (by simp [hc])
    have hc' : choices = (pre ++ [x]) ++ xs := by simp [hc]
    have hidx : choices[pre.length]? = some x := by rw [hc]; simp
    by_cases hlt : levenshtein cmd x < d
    · obtain ⟨k', h1, h2⟩ := ih (pre ++ [x]) x (levenshtein cmd x) pre.length hc' hidx hl'
      refine ⟨k', ?_, ?_⟩
      · have : ((levenshtein cmd x : Nat) : Int) < (d : Int) := by omega
        simp only [Go.forRangeFrom, go_closestChoice_loop1, hx, bind, Option.bind, pure, this, decide_true, Bool.or_true, if_true]
        simp only [closestLoop, hlt, if_true]
        simpa using h1
      · simpa [closestLoop, hlt] using h2
    · obtain ⟨k', h1, h2⟩ := ih (pre ++ [x]) best d k hc' hk hl'
      refine ⟨k', ?_, ?_⟩
      · have h3 : ¬ (((levenshtein cmd x : Nat) : Int) < (d : Int)) := by omega
        have h4 : ¬ ((k : Int) < 0) := by omega
        simp only [Go.forRangeFrom, go_closestChoice_loop1, hx, bind, Option.bind, pure, h3, h4, decide_false, Bool.or_false]
        simp only [closestLoop, hlt, if_false]
        simpa using h1
      · simpa [closestLoop, hlt] using h2


/-- `closestChoice` as translated never panics and returns the model's choice and distance — given
    that the translated `levenshtein` computes the model's distance on the choices (the 2-dimensional
    table of the Go function against the model's row-by-row programme is not proved here; the model's
    distance is proved to be the Levenshtein distance in C20.lean, and the Go function is compared with
    it by the harness on every run). -/
theorem trans_closestChoice_partial (cmd : Bytes) (choices : List Bytes)
    (hlev : ∀ c ∈ choices, go_levenshtein cmd c = some (levenshtein cmd c : Int)) :
    go_closestChoice cmd choices =
      some ((closestChoice cmd choices).1, ((closestChoice cmd choices).2 : Int)) := by
  cases choices with
  | nil => simp [go_closestChoice, Go.len, closestChoice]
  | cons c cs =>
    have hne : ¬ (Go.len (c :: cs) = 0) := by simp [Go.len]; omega
    obtain ⟨k', h1, h2⟩ := ccLoop cmd (c :: cs) cs [c] c (levenshtein cmd c) 0 rfl rfl
      (fun x hx => hlev x (by simp [hx]))
    have hloop : Go.forRange (ρ := Bytes × Int) (c :: cs) ((-1 : Int), (-1 : Int)) (go_closestChoice_loop1 cmd) =
        some (Go.LoopR.next (((closestLoop cmd cs c (levenshtein cmd c)).2 : Int), (k' : Int))) := by
      simp only [Go.forRange, Go.forRangeFrom, go_closestChoice_loop1, hlev c (by simp), bind, Option.bind, pure]
      simpa using h1
    unfold go_closestChoice
    simp only [hne, decide_false]
    show (Go.forRange (ρ := Bytes × Int) (c :: cs) ((-1 : Int), (-1 : Int)) (go_closestChoice_loop1 cmd) >>= _) = _
    rw [hloop]
    simp only [bind, Option.bind, pure, Go.idx, closestChoice]
    have : (0:Int) ≤ (k' : Int) := by omega
    simp [this, h2]

end GoFlags.C20
