/-
  C20, translation tie: `levenshtein` and `closestChoice` (closest.go), TRANSLATED from /repo's source on
  every check (tools/golean -> Generated/Trans.lean), never panic and compute the model's distance, choice
  and distance — for every input (the model's distance is proved to be the Levenshtein distance in C20.lean).
-/
import GoFlags.Generated.Trans
import GoFlags.Closest
import GoFlags.Lemmas.GoSem

namespace GoFlags.C20
open GoFlags Bytes Generated

/-! ### `levenshtein`: the Go function's 2-dimensional table against the model's row-by-row programme -/

/-- one cell of the table, on the integers of the translated function -/
def cellI (sc tc : Nat) (diag up left : Int) : Int :=
  if sc = tc then diag
  else
    let d := diag + 1
    let d := if left + 1 < d then left + 1 else d
    if up + 1 < d then up + 1 else d

theorem cellI_cast (sc tc diag up left : Nat) :
    cellI sc tc (diag : Int) (up : Int) (left : Int) = ((levCell sc tc diag up left : Nat) : Int) := by
  unfold cellI levCell
  split
  · rfl
  · simp only
    split <;> split <;> split <;> split <;> omega

/-- the body of the inner loop writes one cell: row `i+1`, column `j+1` -/
theorem loop4_step (sc tc : Nat) (pre post : List (List Int)) (ra rb ca cb : List Int) (diag up left x : Int)
    (hlen : ca.length = ra.length) :
    go_levenshtein_loop4 sc (pre.length : Int) (ra.length : Int) tc
        (pre ++ (ra ++ diag :: up :: rb) :: (ca ++ left :: x :: cb) :: post) =
      some (Go.LoopR.next (pre ++ (ra ++ diag :: up :: rb) :: (ca ++ left :: cellI sc tc diag up left :: cb) :: post)) := by
  have e1 : ∀ C, Go.idx (pre ++ (ra ++ diag :: up :: rb) :: C :: post) (pre.length : Int) = some (ra ++ diag :: up :: rb) :=
    fun C => Go.idx_at _ _ _ _ rfl
  have e2 : ∀ C, Go.idx (pre ++ (ra ++ diag :: up :: rb) :: C :: post) ((pre.length : Int) + 1) = some C :=
    fun C => Go.idx_at1 _ _ _ _ _ rfl
  have e3 : ∀ C C', Go.setIdx (pre ++ (ra ++ diag :: up :: rb) :: C :: post) ((pre.length : Int) + 1) C' =
      some (pre ++ (ra ++ diag :: up :: rb) :: C' :: post) := fun C C' => Go.set_at1 _ _ _ _ _ _ rfl
  have r1 : Go.idx (ra ++ diag :: up :: rb) (ra.length : Int) = some diag := Go.idx_at _ _ _ _ rfl
  have r2 : Go.idx (ra ++ diag :: up :: rb) ((ra.length : Int) + 1) = some up := Go.idx_at1 _ _ _ _ _ rfl
  have c1 : ∀ y, Go.idx (ca ++ left :: y :: cb) (ra.length : Int) = some left := fun y => Go.idx_at _ _ _ _ hlen
  have c2 : ∀ y, Go.idx (ca ++ left :: y :: cb) ((ra.length : Int) + 1) = some y := fun y => Go.idx_at1 _ _ _ _ _ hlen
  have c3 : ∀ y v, Go.setIdx (ca ++ left :: y :: cb) ((ra.length : Int) + 1) v = some (ca ++ left :: v :: cb) :=
    fun y v => Go.set_at1 _ _ _ _ _ _ hlen
  unfold go_levenshtein_loop4 cellI
  by_cases hsc : sc = tc
  · simp only [hsc, decide_true, if_true, bind, Option.bind, pure, e1, e2, e3, r1, r2, c1, c2, c3]
  · simp only [hsc, decide_false, if_false, bind, Option.bind, pure, e1, e2, e3, r1, r2, c1, c2, c3]
    by_cases h1 : left + 1 < diag + 1 <;> by_cases h2 : up + 1 < left + 1 <;> by_cases h3 : up + 1 < diag + 1 <;>
      simp only [h1, h2, h3, decide_true, decide_false, if_true, if_false, bind, Option.bind, pure, e1, e2, e3, r1, r2, c1, c2, c3] <;>
      first | rfl | (exfalso; omega)

def castL (l : List Nat) : List Int := l.map (fun (n : Nat) => Int.ofNat n)

@[simp] theorem castL_nil : castL [] = [] := rfl
@[simp] theorem castL_cons (a : Nat) (l : List Nat) : castL (a :: l) = (a : Int) :: castL l := rfl
@[simp] theorem castL_length (l : List Nat) : (castL l).length = l.length := by simp [castL]

/-- the inner loop fills row `i+1` from column `j+1` on with the model's `levRow` -/
theorem inner_loop (sc : Nat) (pre post : List (List Int)) :
    ∀ (trR : List Nat) (ra : List Int) (prev : List Nat) (ca : List Int) (left : Nat) (xs : List Int),
      prev.length = trR.length + 1 → xs.length = trR.length → ca.length = ra.length →
      Go.forRangeFrom (go_levenshtein_loop4 sc (pre.length : Int)) trR (ra.length : Int)
          (pre ++ (ra ++ castL prev) :: (ca ++ (left : Int) :: xs) :: post) =
        some (Go.LoopR.next (pre ++ (ra ++ castL prev) :: (ca ++ (left : Int) :: castL (levRow sc trR prev left)) :: post)) := by
  intro trR
  induction trR with
  | nil =>
    intro ra prev ca left xs _ hx _
    have : xs = [] := by cases xs <;> simp_all
    subst this
    simp [Go.forRangeFrom, levRow]
  | cons tc rest ih =>
    intro ra prev ca left xs hp hx hc
    match prev, hp with
    | diag :: up :: prev', hp =>
      match xs, hx with
      | x :: xs', hx =>
        simp only [castL_cons, Go.forRangeFrom]
        rw [loop4_step sc tc pre post ra (castL prev') ca xs' diag up left x hc]
        simp only [cellI_cast]
        have := ih (ra ++ [(diag : Int)]) (up :: prev') (ca ++ [(left : Int)]) (levCell sc tc diag up left) xs'
          (by simpa using hp) (by simpa using hx) (by simp [hc])
        simp only [List.length_append, List.length_cons, List.length_nil, List.append_assoc, List.cons_append,
          List.nil_append, castL_cons, Int.natCast_add, Int.cast_ofNat_Int] at this
        simp only [levRow, castL_cons]
        exact this

theorem levRow_len (sc : Nat) : ∀ (t prev : List Nat) (left : Nat), prev.length = t.length + 1 →
    (levRow sc t prev left).length = t.length := by
  intro t
  induction t with
  | nil => intro prev left _; simp [levRow]
  | cons tc t ih =>
    intro prev left h
    match prev, h with
    | diag :: up :: prev', h =>
      simp only [levRow, List.length_cons]
      rw [ih (up :: prev') _ (by simpa using h)]

/-- the rows the first loop prepares: row `k` is `k, 0, …, 0` -/
def startRows : Nat → Nat → Nat → List (List Int)
  | _, 0, _ => []
  | k, c + 1, m => ((k : Int) :: List.replicate m 0) :: startRows (k + 1) c m

theorem loop3_step (tr : List Nat) (sc : Nat) (pre post : List (List Int)) (row : List Nat) (zs : List Int)
    (hr : row.length = tr.length + 1) (hz : zs.length = tr.length) :
    go_levenshtein_loop3 tr (pre.length : Int) sc (pre ++ castL row :: (((pre.length + 1 : Nat) : Int) :: zs) :: post) =
      some (Go.LoopR.next (pre ++ castL row :: castL ((pre.length + 1) :: levRow sc tr row (pre.length + 1)) :: post)) := by
  unfold go_levenshtein_loop3 Go.forRange
  have := inner_loop sc pre post tr [] row [] (pre.length + 1) zs hr hz rfl
  simp only [List.nil_append, List.length_nil, Int.ofNat_zero, Int.cast_ofNat_Int] at this
  simp only [bind, Option.bind]
  rw [this]
  rfl

/-- the outer loop computes the model's rows -/
theorem outer_loop (tr : List Nat) :
    ∀ (srR : List Nat) (pre : List (List Int)) (row : List Nat), row.length = tr.length + 1 →
      ∃ pre', pre'.length = pre.length + srR.length ∧
        Go.forRangeFrom (go_levenshtein_loop3 tr) srR (pre.length : Int)
            (pre ++ castL row :: startRows (pre.length + 1) srR.length tr.length) =
          some (Go.LoopR.next (pre' ++ [castL (levRows srR tr row pre.length)])) := by
  intro srR
  induction srR with
  | nil => intro pre row _; exact ⟨pre, by simp, by simp [Go.forRangeFrom, startRows, levRows]⟩
  | cons sc rest ih =>
    intro pre row hr
    simp only [List.length_cons, startRows, Go.forRangeFrom]
    rw [loop3_step tr sc pre _ row _ hr (by simp)]
    have hr' : ((pre.length + 1) :: levRow sc tr row (pre.length + 1)).length = tr.length + 1 := by
      simp [levRow_len sc tr row _ hr]
    obtain ⟨pre', hl, h⟩ := ih (pre ++ [castL row]) ((pre.length + 1) :: levRow sc tr row (pre.length + 1)) hr'
    refine ⟨pre', by simp at hl; omega, ?_⟩
    simp only [List.length_append, List.length_cons, List.length_nil, List.append_assoc, List.cons_append,
      List.nil_append, Int.natCast_add, Int.cast_ofNat_Int] at h
    simp only [levRows]
    exact h

theorem loop1_all (tr : List Nat) :
    ∀ (cnt : Nat) (L : List (List Int)) (pre : List (List Int)), L.length = cnt →
      Go.forRangeFrom (go_levenshtein_loop1 tr) L (pre.length : Int) (pre ++ List.replicate cnt []) =
        some (Go.LoopR.next (pre ++ startRows pre.length cnt tr.length)) := by
  intro cnt
  induction cnt with
  | zero => intro L pre h; have : L = [] := by cases L <;> simp_all
            subst this; simp [Go.forRangeFrom, startRows]
  | succ c ih =>
    intro L pre h
    match L, h with
    | x :: L', h =>
      have hm : Go.make (Go.len tr + 1) (0 : Int) = some (List.replicate (tr.length + 1) 0) := by
        have h1 : (0:Int) ≤ Go.len tr + 1 := by simp [Go.len]; omega
        have h2 : (Go.len tr + 1).toNat = tr.length + 1 := by simp only [Go.len]; omega
        simp [Go.make, h1, h2]
      have h0 : Go.setIdx ((0:Int) :: List.replicate tr.length (0:Int)) 0 (pre.length : Int) =
          some ((pre.length : Int) :: List.replicate tr.length 0) :=
        Go.set_at ([] : List Int) (List.replicate tr.length 0) 0 (pre.length : Int) 0 rfl
      simp only [Go.forRangeFrom, go_levenshtein_loop1, List.replicate_succ, bind, Option.bind, hm,
        Go.set_at pre _ _ _ pre.length rfl, Go.idx_at pre _ _ pre.length rfl, h0]
      have := ih L' (pre ++ [(pre.length : Int) :: List.replicate tr.length 0]) (by simpa using h)
      simp only [List.length_append, List.length_cons, List.length_nil, List.append_assoc, List.cons_append,
        List.nil_append, Int.natCast_add, Int.cast_ofNat_Int, Nat.zero_add, Int.zero_add, Int.natCast_zero, Int.natCast_one] at this
      simp only [pure]
      simp only [startRows]
      exact this

theorem castL_append (a b : List Nat) : castL (a ++ b) = castL a ++ castL b := by simp [castL]

theorem loop2_all :
    ∀ (cnt : Nat) (L : List Int) (done : List Nat) (zs : List Int) (rows : List (List Int)),
      L.length = cnt → zs.length = cnt →
      Go.forRangeFrom go_levenshtein_loop2 L (done.length : Int) ((castL done ++ zs) :: rows) =
        some (Go.LoopR.next ((castL done ++ castL (List.range' done.length cnt)) :: rows)) := by
  intro cnt
  induction cnt with
  | zero => intro L done zs rows h hz
            have : L = [] := by cases L <;> simp_all
            have : zs = [] := by cases zs <;> simp_all
            subst_vars; simp [Go.forRangeFrom]
  | succ c ih =>
    intro L done zs rows h hz
    match L, h, zs, hz with
    | x :: L', h, z :: zs', hz =>
      have e0 : ∀ r, Go.idx (r :: rows) (0 : Int) = some r := fun r => Go.idx_at [] rows r 0 rfl
      have e1 : ∀ r r', Go.setIdx (r :: rows) (0 : Int) r' = some (r' :: rows) := fun r r' => Go.set_at [] rows r r' 0 rfl
      simp only [Go.forRangeFrom, go_levenshtein_loop2, bind, Option.bind, e0, e1,
        Go.set_at (castL done) zs' z _ done.length (by simp)]
      have := ih L' (done ++ [done.length]) zs' rows (by simpa using h) (by simpa using hz)
      simp only [castL_append, castL_cons, castL_nil, List.length_append, List.length_cons, List.length_nil,
        List.append_assoc, List.cons_append, List.nil_append, Int.natCast_add, Int.cast_ofNat_Int, Nat.zero_add, Int.zero_add, Int.natCast_zero, Int.natCast_one] at this
      simp only [pure]
      simp only [List.range'_succ, castL_cons]
      exact this

theorem levRows_len (tr : List Nat) : ∀ (s row : List Nat) (i : Nat), row.length = tr.length + 1 →
    (levRows s tr row i).length = tr.length + 1 := by
  intro s
  induction s with
  | nil => intro row i h; simpa [levRows] using h
  | cons sc s ih =>
    intro row i h
    simp only [levRows]
    apply ih
    simp [levRow_len sc tr row _ h]


theorem getLastD_eq (l : List Nat) (m : Nat) (h : l.length = m + 1) : l[m]? = some (l.getLastD 0) := by
  have h1 : l.getLast? = l[l.length - 1]? := List.getLast?_eq_getElem? 
  rw [h] at h1
  simp only [Nat.add_sub_cancel] at h1
  rw [← h1]
  cases l with
  | nil => simp at h
  | cons a t => simp [List.getLastD, List.getLast?_eq_some_getLast]

/-- **`levenshtein` as translated from closest.go never panics and computes the model's distance** (the
    2-dimensional table of the Go function against the model's row-by-row programme). -/
theorem trans_levenshtein (s t : Bytes) : go_levenshtein s t = some ((levenshtein s t : Nat) : Int) := by
  unfold go_levenshtein levenshtein levRunes
  generalize runes s = sr
  generalize runes t = tr
  by_cases hs : sr = []
  · subst hs; simp [Go.len]
  · by_cases ht : tr = []
    · subst ht
      have : ¬ ((sr.length : Int) = 0) := by
        cases sr with
        | nil => exact absurd rfl hs
        | cons a l => simp; omega
      simp [Go.len, this, hs]
    · have hn : ¬ (Go.len sr = 0) := by
        cases sr with
        | nil => exact absurd rfl hs
        | cons a l => simp [Go.len]; omega
      have hm : ¬ (Go.len tr = 0) := by
        cases tr with
        | nil => exact absurd rfl ht
        | cons a l => simp [Go.len]; omega
      simp only [hn, hm, hs, ht, decide_false, if_false, Bool.false_eq_true]
      -- the table is made
      have hmk : Go.make (Go.len sr + 1) ([] : List Int) = some (List.replicate (sr.length + 1) []) := by
        have h1 : (0:Int) ≤ Go.len sr + 1 := by simp [Go.len]; omega
        have h2 : (Go.len sr + 1).toNat = sr.length + 1 := by simp only [Go.len]; omega
        simp [Go.make, h1, h2]
      -- first loop
      have l1 := loop1_all tr (sr.length + 1) (List.replicate (sr.length + 1) []) [] (by simp)
      simp only [List.length_nil, List.nil_append, startRows, Nat.zero_add] at l1
      rw [show (((0 : Nat) : Int)) = (0 : Int) from rfl] at l1
      -- second loop
      have l2 := loop2_all (tr.length + 1) ((0:Int) :: List.replicate tr.length 0) [] ((0:Int) :: List.replicate tr.length 0)
        (startRows 1 sr.length tr.length) (by simp) (by simp)
      simp only [List.length_nil, castL_nil, List.nil_append, Int.natCast_zero] at l2
      -- third loop
      obtain ⟨pre', hpl, l3⟩ := outer_loop tr sr [] (List.range' 0 (tr.length + 1)) (by simp)
      simp only [List.length_nil, List.nil_append, Int.natCast_zero, Nat.zero_add] at l3 hpl
      have hrow := levRows_len tr sr (List.range' 0 (tr.length + 1)) 0 (by simp)
      have e0 : ∀ (r : List Int) rows, Go.idx (r :: rows) (0 : Int) = some r := fun r rows => Go.idx_at [] rows r 0 rfl
      simp only [bind, Option.bind, pure, hmk, Go.forRange, l1, e0, l2, l3]
      simp only [Go.len]
      rw [Go.idx_at pre' [] _ sr.length hpl]
      simp only [Go.idx_nat]
      simp only [castL, List.getElem?_map, getLastD_eq _ _ hrow, Option.map_some]
      simp [List.range_eq_range']

/-! ### `closestChoice` -/

theorem ccLoop (cmd : Bytes) (choices : List Bytes) :
    ∀ (xs pre : List Bytes) (best : Bytes) (d : Nat) (k : Nat),
      choices = pre ++ xs → choices[k]? = some best →
      (∀ c ∈ xs, go_levenshtein cmd c = some (levenshtein cmd c : Int)) →
      ∃ k' : Nat, Go.forRangeFrom (go_closestChoice_loop1 cmd) xs pre.length ((d : Int), (k : Int)) =
          some (Go.LoopR.next (((closestLoop cmd xs best d).2 : Int), (k' : Int))) ∧
        choices[k']? = some (closestLoop cmd xs best d).1 := by
  intro xs
  induction xs with
  | nil => intro pre best d k _ hk _; exact ⟨k, by simp [Go.forRangeFrom, closestLoop], by simpa [closestLoop] using hk⟩
  | cons x xs ih =>
    intro pre best d k hc hk hl
    have hx := hl x (by simp)
    have hl' : ∀ c ∈ xs, go_levenshtein cmd c = some (levenshtein cmd c : Int) := fun c hc => hl c (by simp [hc])
    have hc' : choices = (pre ++ [x]) ++ xs := by simp [hc]
    have hidx : choices[pre.length]? = some x := by rw [hc]; simp
    by_cases hlt : levenshtein cmd x < d
    · obtain ⟨k', h1, h2⟩ := ih (pre ++ [x]) x (levenshtein cmd x) pre.length hc' hidx hl'
      refine ⟨k', ?_, ?_⟩
      · have : ((levenshtein cmd x : Nat) : Int) < (d : Int) := by omega
        simp only [Go.forRangeFrom, go_closestChoice_loop1, hx, bind, Option.bind, pure, this, decide_true, Bool.or_true, if_true]
        simp only [closestLoop, hlt, if_true]
        simpa using h1
      · simpa [closestLoop, hlt] using h2
    · obtain ⟨k', h1, h2⟩ := ih (pre ++ [x]) best d k hc' hk hl'
      refine ⟨k', ?_, ?_⟩
      · have h3 : ¬ (((levenshtein cmd x : Nat) : Int) < (d : Int)) := by omega
        have h4 : ¬ ((k : Int) < 0) := by omega
        simp only [Go.forRangeFrom, go_closestChoice_loop1, hx, bind, Option.bind, pure, h3, h4, decide_false, Bool.or_false]
        simp only [closestLoop, hlt, if_false]
        simpa using h1
      · simpa [closestLoop, hlt] using h2


/-- `closestChoice` as translated never panics and returns the model's choice and distance — given
    that the translated `levenshtein` computes the model's distance on the choices (the 2-dimensional
    table of the Go function against the model's row-by-row programme is not proved here; the model's
    distance is proved to be the Levenshtein distance in C20.lean, and the Go function is compared with
    it by the harness on every run). -/
theorem trans_closestChoice_partial (cmd : Bytes) (choices : List Bytes)
    (hlev : ∀ c ∈ choices, go_levenshtein cmd c = some (levenshtein cmd c : Int)) :
    go_closestChoice cmd choices =
      some ((closestChoice cmd choices).1, ((closestChoice cmd choices).2 : Int)) := by
  cases choices with
  | nil => simp [go_closestChoice, Go.len, closestChoice]
  | cons c cs =>
    have hne : ¬ (Go.len (c :: cs) = 0) := by simp [Go.len]; omega
    obtain ⟨k', h1, h2⟩ := ccLoop cmd (c :: cs) cs [c] c (levenshtein cmd c) 0 rfl rfl
      (fun x hx => hlev x (by simp [hx]))
    have hloop : Go.forRange (ρ := Bytes × Int) (c :: cs) ((-1 : Int), (-1 : Int)) (go_closestChoice_loop1 cmd) =
        some (Go.LoopR.next (((closestLoop cmd cs c (levenshtein cmd c)).2 : Int), (k' : Int))) := by
      simp only [Go.forRange, Go.forRangeFrom, go_closestChoice_loop1, hlev c (by simp), bind, Option.bind, pure]
      simpa using h1
    unfold go_closestChoice
    simp only [hne, decide_false]
    show (Go.forRange (ρ := Bytes × Int) (c :: cs) ((-1 : Int), (-1 : Int)) (go_closestChoice_loop1 cmd) >>= _) = _
    rw [hloop]
    simp only [bind, Option.bind, pure, Go.idx, closestChoice]
    have : (0:Int) ≤ (k' : Int) := by omega
    simp [this, h2]

/-- **`closestChoice` as translated from closest.go never panics and returns the model's choice and distance.** -/
theorem trans_closestChoice (cmd : Bytes) (choices : List Bytes) :
    go_closestChoice cmd choices =
      some ((closestChoice cmd choices).1, ((closestChoice cmd choices).2 : Int)) :=
  trans_closestChoice_partial cmd choices (fun c _ => trans_levenshtein cmd c)

end GoFlags.C20
