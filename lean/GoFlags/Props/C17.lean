/-
  C17 — Help layout is well-formed for every declaration and width.

  Proved here: where the help generator can panic at all (one place per row: the padding
  between the option column and the description) and the exact condition; that the condition
  is about *characters* (after D3); structural facts about the wrapper.  The geometric
  statements over whole help texts (common column, width bound, words preserved) are carried by
  the byte-exact correspondence and the geometry oracles of the harness, not yet by theorems.
-/
import GoFlags.Help

namespace GoFlags.C17
open GoFlags Bytes

/-- padding never panics for a non-negative count -/
theorem repeatSp_some_iff (n : Int) : (repeatSp n).isSome = true ↔ 0 ≤ n := by
  unfold repeatSp; split <;> simp <;> omega

/-- **The only way a help row can panic**: the option column already written is wider, in
    characters, than the description column. -/
theorem help_row_panics_iff (o : Opt) (longNS envKey : Bytes) (info : AlignInfo) (hh : o.hidden = false) (hd : o.desc ≠ []) :
    helpOptionText o longNS envKey info = none ↔
      info.descriptionStart + 2 < runeCount (helpOptionHead o longNS info) := by
  unfold helpOptionText
  simp only [hh, Bool.false_eq_true, if_false, hd, ne_eq, not_false_eq_true, if_true]
  by_cases hlt : info.descriptionStart + 2 < runeCount (helpOptionHead o longNS info)
  · have : (info.descriptionStart : Int) + 2 - (runeCount (helpOptionHead o longNS info) : Int) < 0 := by omega
    simp [repeatSp, this, hlt]
  · have : ¬ ((info.descriptionStart : Int) + 2 - (runeCount (helpOptionHead o longNS info) : Int) < 0) := by omega
    simp [repeatSp, this, hlt]

/-- a row without description never pads, hence never panics -/
theorem undescribed_row_never_panics (o : Opt) (longNS envKey : Bytes) (info : AlignInfo) (hd : o.desc = []) :
    (helpOptionText o longNS envKey info).isSome = true := by
  unfold helpOptionText
  split
  · rfl
  · simp [hd]

/-- the description column is to the right of every counted name: it grows with the longest
    name (`maxLongLen` is a maximum over the rows, kept by `updateLen`) -/
theorem updateLen_is_max (a : AlignInfo) (name : Bytes) (indent : Bool) :
    (a.updateLen name indent).maxLongLen = max a.maxLongLen (runeCount name + (if indent then 4 else 0)) := by
  unfold AlignInfo.updateLen
  simp only
  by_cases h : runeCount name + (if indent then 4 else 0) > a.maxLongLen
  · simp only [h, if_true]; omega
  · simp only [h, if_false]; omega

theorem updateLen_monotone (a : AlignInfo) (name : Bytes) (indent : Bool) :
    a.maxLongLen ≤ (a.updateLen name indent).maxLongLen := by
  rw [updateLen_is_max]; omega

theorem descriptionStart_ge (a : AlignInfo) : a.maxLongLen + 2 ≤ a.descriptionStart := by
  unfold AlignInfo.descriptionStart; omega

/-- names are measured in characters, not bytes: `é` counts one -/
example : runeCount [0xC3, 0xA9] = 1 := by
  unfold runeCount; simp [runes, decodeRune, isCont]

/-- the minimum wrap width is 10 whatever the terminal width -/
theorem wrap_width_at_least_10 (s : Bytes) (l : Int) (pfx : Bytes) (h : l < 10) :
    wrapText s l pfx = wrapText s 10 pfx := by
  unfold wrapText; simp [h]

/-- a line that fits is not broken -/
theorem fitting_line_is_kept (l fuel : Nat) (line : Bytes) (h : runeCount line ≤ l) (hne : line ≠ []) :
    wrapSegs l (fuel + 1) line = [⟨line, false⟩] := by
  unfold wrapSegs
  have : ¬ runeCount line > l := by omega
  simp [this, hne]

/-- an inserted break is always a hyphen followed by a line break, and only hard breaks insert one -/
theorem only_hard_breaks_insert (s : Seg) : s.render = if s.hard then s.text ++ [0x2D, 0x0A] else s.text := rfl

/-- continuation lines of one paragraph are indented by exactly the prefix: the pieces are
    joined by a line break followed by the prefix -/
theorem continuation_lines_get_prefix (l : Nat) (pfx line : Bytes) :
    wrapLine l pfx line = join (0x0A :: pfx) ((wrapSegs l ((trimSpace line).length + 1) (trimSpace line)).map Seg.render) := rfl

/-- the wrapper looks for a blank only inside the first `l` characters -/
theorem break_search_window (n : Nat) (s : Bytes) (st en : Nat) :
    (charSpan (n + 1) s st en) = charSpan n (s.drop (decodeRune s).2) en (en + (decodeRune s).2) := rfl

end GoFlags.C17
