/-
  C17 — Help layout is well-formed for every declaration and width.

  Proved here: where the help generator can panic at all (one place per row: the padding
  between the option column and the description) and the exact condition; that the condition
  is about *characters* (after D3); and the two geometric theorems about the wrapper, for every
  text and width: no output line is longer than the width, in characters, the inserted hyphen
  included (`wrapSegs_width`), and nothing but white space is lost or reordered
  (`wrapSegs_preserves`) — with their corollary for one input line (`wrapLine_pieces`).  The
  alignment of whole help texts on a common column is carried by the byte-exact correspondence
  and the geometry oracles of the harness, not by a theorem.
-/
import GoFlags.Props.C17.Facts
import GoFlags.Help
import GoFlags.Lemmas.WrapLemmas

namespace GoFlags.C17
open GoFlags Bytes

/-- padding never panics for a non-negative count -/
theorem repeatSp_some_iff (n : Int) : (repeatSp n).isSome = true ↔ 0 ≤ n := by
  unfold repeatSp; split <;> simp <;> omega

/-- **The only way a help row can panic**: the option column already written is wider, in
    characters, than the description column. -/
theorem help_row_panics_iff (o : Opt) (longNS envKey : Bytes) (info : AlignInfo) (hh : o.hidden = false) (hd : o.desc ≠ []) :
    helpOptionText o longNS envKey info = none ↔
      info.descriptionStart + 2 < runeCount (helpOptionHead o longNS info) := by
  unfold helpOptionText
  simp only [hh, Bool.false_eq_true, if_false, hd, ne_eq, not_false_eq_true, if_true]
  by_cases hlt : info.descriptionStart + 2 < runeCount (helpOptionHead o longNS info)
  · have : (info.descriptionStart : Int) + 2 - (runeCount (helpOptionHead o longNS info) : Int) < 0 := by omega
    simp [repeatSp, this, hlt]
  · have : ¬ ((info.descriptionStart : Int) + 2 - (runeCount (helpOptionHead o longNS info) : Int) < 0) := by omega
    simp [repeatSp, this, hlt]

/-- a row without description never pads, hence never panics -/
theorem undescribed_row_never_panics (o : Opt) (longNS envKey : Bytes) (info : AlignInfo) (hd : o.desc = []) :
    (helpOptionText o longNS envKey info).isSome = true := by
  unfold helpOptionText
  split
  · rfl
  · simp [hd]

/-- the description column is to the right of every counted name: it grows with the longest
    name (`maxLongLen` is a maximum over the rows, kept by `updateLen`) -/
theorem updateLen_is_max (a : AlignInfo) (name : Bytes) (indent : Bool) :
    (a.updateLen name indent).maxLongLen = max a.maxLongLen (runeCount name + (if indent then 4 else 0)) := by
  unfold AlignInfo.updateLen
  simp only
  by_cases h : runeCount name + (if indent then 4 else 0) > a.maxLongLen
  · simp only [h, if_true]; omega
  · simp only [h, if_false]; omega

theorem updateLen_monotone (a : AlignInfo) (name : Bytes) (indent : Bool) :
    a.maxLongLen ≤ (a.updateLen name indent).maxLongLen := by
  rw [updateLen_is_max]; omega

theorem descriptionStart_ge (a : AlignInfo) : a.maxLongLen + 2 ≤ a.descriptionStart := by
  unfold AlignInfo.descriptionStart; omega

/-- names are measured in characters, not bytes: `é` counts one -/
example : runeCount [0xC3, 0xA9] = 1 := by
  unfold runeCount; simp [runes, decodeRune, isCont]

/-- the minimum wrap width is 10 whatever the terminal width -/
theorem wrap_width_at_least_10 (s : Bytes) (l : Int) (pfx : Bytes) (h : l < 10) :
    wrapText s l pfx = wrapText s 10 pfx := by
  unfold wrapText; simp [h]

/-- a line that fits is not broken -/
theorem fitting_line_is_kept (l fuel : Nat) (line : Bytes) (h : runeCount line ≤ l) (hne : line ≠ []) :
    wrapSegs l (fuel + 1) line = [⟨line, false⟩] := by
  unfold wrapSegs
  have : ¬ runeCount line > l := by omega
  simp [this, hne]

/-- an inserted break is always a hyphen followed by a line break, and only hard breaks insert one -/
theorem only_hard_breaks_insert (s : Seg) : s.render = if s.hard then s.text ++ [0x2D, 0x0A] else s.text := rfl

/-- continuation lines of one paragraph are indented by exactly the prefix: the pieces are
    joined by a line break followed by the prefix -/
theorem continuation_lines_get_prefix (l : Nat) (pfx line : Bytes) :
    wrapLine l pfx line = join (0x0A :: pfx) ((wrapSegs l ((trimSpace line).length + 1) (trimSpace line)).map Seg.render) := rfl

/-- the wrapper looks for a blank only inside the first `l` characters -/
theorem break_search_window (n : Nat) (s : Bytes) (st en : Nat) :
    (charSpan (n + 1) s st en) = charSpan n (s.drop (decodeRune s).2) en (en + (decodeRune s).2) := rfl

/-! ### The wrapper, for every text and width -/

/-- **Width**: no output line of `wrapText` is longer than the width (counted in characters, the
    inserted hyphen included), for every text, every width of at least one character, and however
    many lines it takes. -/
theorem wrapSegs_width (l : Nat) (hl : 1 ≤ l) (fuel : Nat) : ∀ (line : Bytes) (seg : Seg),
    seg ∈ wrapSegs l fuel line → runeCount seg.text + (if seg.hard then 1 else 0) ≤ l := by
  induction fuel with
  | zero => intro line seg h; simp [wrapSegs] at h
  | succ fuel ih =>
    intro line seg h
    unfold wrapSegs at h
    split at h
    · next hgt =>
      obtain ⟨l', rfl⟩ : ∃ l', l = l' + 1 := ⟨l - 1, by omega⟩
      rw [charSpan_eq] at h
      simp only [Nat.zero_add] at h
      have hb1 := runes_at_offset (l' + 1) line (by omega)
      have hb0 := runes_at_offset l' line (by omega)
      split at h
      · next pos hpos =>
        rcases List.mem_cons.mp h with rfl | h
        · -- a soft break: the piece ends before a blank inside the first l characters
          simp only [Bool.false_eq_true, if_false, Nat.add_zero]
          obtain ⟨post, hsp, hlt⟩ := lastIndexSpace_spec _ _ hpos
          have hpre : line.take pos = (line.take (runeOffset (l' + 1) line)).take pos := by
            rw [List.take_take]; congr 1
            simp only [List.length_take] at hlt; omega
          have hcount : runeCount (line.take pos) + 1 ≤ l' + 1 := by
            have h1 : runes (line.take (runeOffset (l' + 1) line)) =
                runes (line.take pos) ++ runes (0x20 :: post) := by
              conv => lhs; rw [hsp]
              rw [← hpre]
              exact runes_append_noncont _ 0x20 post (by decide)
            have h2 : (runes (line.take (runeOffset (l' + 1) line))).length ≤ l' + 1 := by
              rw [hb1.1]; simp; omega
            rw [h1, runes_ascii 0x20 post (by decide)] at h2
            simp only [List.length_append, List.length_cons] at h2
            unfold runeCount; omega
          have := runeCount_trimSpace_le (line.take pos)
          omega
        · exact ih _ _ h
      · rcases List.mem_cons.mp h with rfl | h
        · -- a hard break: l - 1 characters and the hyphen
          simp only [if_true]
          have : runeCount (line.take (runeOffset l' line)) ≤ l' := by
            unfold runeCount; rw [hb0.1]; simp; omega
          have := runeCount_trimSpace_le (line.take (runeOffset l' line))
          omega
        · exact ih _ _ h
    · next hle =>
      split at h
      · simp at h
      · simp only [List.mem_cons, List.mem_nil_iff, or_false] at h
        subst h
        simp only [Bool.false_eq_true, if_false, Nat.add_zero]
        omega


/-- **Nothing is lost or reordered**: the characters of the pieces `wrapText` cuts a line into,
    white space aside, are the characters of the line, in order — for every line that does not
    start with a blank (lines are trimmed first), every width of at least two characters, and
    however many pieces it takes. -/
theorem wrapSegs_preserves (l : Nat) (hl : 2 ≤ l) (fuel : Nat) : ∀ (line : Bytes),
    line.length < fuel → line.head? ≠ some 0x20 →
    (wrapSegs l fuel line).flatMap (fun seg => nonSpace (runes seg.text)) = nonSpace (runes line) := by
  induction fuel with
  | zero => intro line h _; omega
  | succ fuel ih =>
    intro line hfuel hhead
    unfold wrapSegs
    split
    · next hgt =>
      obtain ⟨l', rfl⟩ : ∃ l', l = l' + 1 := ⟨l - 1, by omega⟩
      rw [charSpan_eq]
      simp only [Nat.zero_add]
      have hne : line ≠ [] := by intro e; subst e; simp [runeCount, runes_nil] at hgt
      split
      · next pos hpos =>
        obtain ⟨post, hsp, hlt⟩ := lastIndexSpace_spec _ _ hpos
        have hposlt : pos < line.length := by simp only [List.length_take] at hlt; omega
        have hpre : line.take pos = (line.take (runeOffset (l' + 1) line)).take pos := by
          rw [List.take_take]; congr 1
          simp only [List.length_take] at hlt; omega
        -- the byte at pos is a blank, so pos is not 0 and is a character boundary
        have hdrop : line.drop pos = 0x20 :: (line.drop pos).tail := by
          have h1 : (line.take (runeOffset (l' + 1) line)).drop pos = 0x20 :: post := by
            have hlen : (List.take pos (List.take (runeOffset (l' + 1) line) line)).length = pos := by
              rw [List.length_take]; omega
            conv => lhs; rw [hsp]
            rw [List.drop_append_of_le_length (by rw [hlen]; exact Nat.le_refl _)]
            simp
          have h2 : (line.take (runeOffset (l' + 1) line)).drop pos = (line.drop pos).take (runeOffset (l' + 1) line - pos) := by
            rw [List.drop_take]
          rw [h2] at h1
          cases hq : line.drop pos with
          | nil => rw [hq] at h1; simp at h1
          | cons c r =>
            rw [hq] at h1
            cases hk : runeOffset (l' + 1) line - pos with
            | zero => rw [hk] at h1; simp at h1
            | succ k => rw [hk] at h1; simp at h1; rw [h1.1]; rfl
        have hpos0 : pos ≠ 0 := by
          intro e; subst e
          simp only [List.drop_zero] at hdrop
          rw [hdrop] at hhead; simp at hhead
        have hsplit : runes line = runes (line.take pos) ++ runes (line.drop pos) := by
          conv => lhs; rw [← List.take_append_drop pos line, hdrop]
          rw [runes_append_noncont _ 0x20 _ (by decide), ← hdrop]
        simp only [List.flatMap_cons]
        rw [nonSpace_trimSpace]
        rw [ih (trimSpace (line.drop pos)) (by
          have := trimSpace_length_le (line.drop pos)
          simp only [List.length_drop] at this; omega) (trimSpace_head _)]
        rw [nonSpace_trimSpace, hsplit]
        unfold nonSpace
        rw [List.filter_append]
      · -- a hard break at a character boundary
        have hb0 := runes_at_offset l' line (by omega)
        have hoff : 0 < runeOffset l' line := runeOffset_pos l' line (by omega) hne
        simp only [List.flatMap_cons]
        rw [nonSpace_trimSpace]
        rw [ih (trimSpace (line.drop (runeOffset l' line))) (by
          have := trimSpace_length_le (line.drop (runeOffset l' line))
          have hlp : 0 < line.length := List.length_pos_iff.mpr hne
          simp only [List.length_drop] at this; omega) (trimSpace_head _)]
        rw [nonSpace_trimSpace, hb0.1, hb0.2]
        unfold nonSpace
        rw [← List.filter_append, List.take_append_drop]
    · split
      · next he => subst he; simp [runes_nil, nonSpace]
      · simp

/-- one input line of `wrapText`: it is trimmed, cut with enough fuel for its length, and every
    piece fits while the pieces together carry exactly its non-blank characters -/
theorem wrapLine_pieces (l : Nat) (hl : 2 ≤ l) (line : Bytes) :
    (∀ seg ∈ wrapSegs l ((trimSpace line).length + 1) (trimSpace line),
        runeCount seg.text + (if seg.hard then 1 else 0) ≤ l) ∧
    (wrapSegs l ((trimSpace line).length + 1) (trimSpace line)).flatMap (fun seg => nonSpace (runes seg.text)) =
      nonSpace (runes line) := by
  refine ⟨fun seg h => wrapSegs_width l (by omega) _ _ seg h, ?_⟩
  rw [wrapSegs_preserves l hl _ _ (Nat.lt_succ_self _) (trimSpace_head line), nonSpace_trimSpace]

/-- the width `wrapText` works with is never below 10, so the two theorems above apply -/
example (l : Int) : 2 ≤ (if l < 10 then 10 else l.toNat) := by split <;> omega

/-! ### One column for all descriptions -/


theorem runeCount_append_spaces (a : Bytes) (k : Nat) : runeCount (a ++ spaces k) = runeCount a + k := by
  induction k generalizing a with
  | zero => simp [spaces]
  | succ k ih =>
    have : a ++ spaces (k + 1) = (a ++ [0x20]) ++ spaces k := by
      simp [spaces, List.replicate_succ]
    rw [this, ih]
    unfold runeCount
    rw [runes_append_noncont a 0x20 [] (by decide), runes_ascii 0x20 [] (by decide), runes_nil]
    simp; omega

/-- **All descriptions start in one column.**  For every option that has a description, whatever
    its names, value name and choices: when the row does not panic, the text before the description
    is the option column followed by blanks, and together they are exactly `descriptionStart + 2`
    characters wide — a width that depends on the alignment information only, not on the option. -/
theorem description_column_is_common (o : Opt) (longNS envKey : Bytes) (info : AlignInfo) (row : Bytes)
    (hvis : o.hidden = false) (hdesc : o.desc ≠ [])
    (h : helpOptionText o longNS envKey info = some row) :
    ∃ pad rest, row = helpOptionHead o longNS info ++ pad ++ rest ∧ (∀ c ∈ pad, c = 0x20) ∧
      runeCount (helpOptionHead o longNS info ++ pad) = info.descriptionStart + 2 := by
  unfold helpOptionText at h
  simp only [hvis, Bool.false_eq_true, if_false, hdesc, ne_eq, not_false_eq_true, if_true] at h
  cases hr : repeatSp (((info.descriptionStart + 2 : Nat) : Int) - runeCount (helpOptionHead o longNS info)) with
  | none => rw [hr] at h; simp at h
  | some pad =>
    rw [hr] at h
    simp only [Option.some.injEq] at h
    unfold repeatSp at hr
    split at hr
    · simp at hr
    · next hge =>
      simp only [Option.some.injEq] at hr
      refine ⟨pad, _, h.symm.trans (List.append_assoc _ _ _), ?_, ?_⟩
      · intro c hc; rw [← hr] at hc; simp [spaces] at hc; exact hc.2
      · rw [← hr, runeCount_append_spaces]
        omega
end GoFlags.C17
