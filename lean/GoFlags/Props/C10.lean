/-
  C10 — Positional arguments bind in declaration order.
-/
import GoFlags.Lemmas.ParseBasics

namespace GoFlags.C10
open GoFlags Bytes

/-- **One word, one field, in order.** With a non-slice field at the head of the queue, a word
    that converts is stored in that field, the field leaves the queue, and the rest of the
    words go on to the remaining fields. -/
theorem word_fills_next_field (E : Env) (s : PS) (w : Bytes) (ws : List Bytes) (p : Nat × Nat) (ps : List (Nat × Nat))
    (v : Val) (hq : s.positional = p :: ps) (hrem : (s.P.argAt p).isRemaining = false)
    (hconv : convert E (s.P.argAt p).tag w (s.P.argAt p).ty (s.P.argAt p).val = .ok v) :
    s.addArgs E (w :: ws) =
      PS.addArgs E { s with P := s.P.modArg p fun ad => { ad with val := v }, positional := ps } ws := by
  conv => lhs; unfold PS.addArgs
  simp [hq, hconv, hrem]

/-- **A trailing slice field absorbs every further word** and stays at the head of the queue. -/
theorem slice_field_absorbs (E : Env) (s : PS) (w : Bytes) (ws : List Bytes) (p : Nat × Nat) (ps : List (Nat × Nat))
    (v : Val) (hq : s.positional = p :: ps) (hrem : (s.P.argAt p).isRemaining = true)
    (hconv : convert E (s.P.argAt p).tag w (s.P.argAt p).ty (s.P.argAt p).val = .ok v) :
    s.addArgs E (w :: ws) =
      PS.addArgs E { s with P := s.P.modArg p fun ad => { ad with val := v }, positional := p :: ps } ws := by
  conv => lhs; unfold PS.addArgs
  simp [hq, hconv, hrem]

/-- **Words beyond the declared fields become remaining arguments**, verbatim and in order. -/
theorem extra_words_remain (E : Env) (s : PS) (ws : List Bytes) (hq : s.positional = []) :
    s.addArgs E ws = ({ s with retargs := s.retargs ++ ws }, none) := by
  cases ws with
  | nil => simp [PS.addArgs]
  | cons w ws => simp [PS.addArgs, hq]

/-- a word that does not convert stops the parse with the converter's own error; the fields
    filled so far keep their values and nothing is added to the remaining arguments -/
theorem conversion_error_stops (E : Env) (s : PS) (w : Bytes) (ws : List Bytes) (p : Nat × Nat) (ps : List (Nat × Nat))
    (m : Bytes) (hq : s.positional = p :: ps)
    (hconv : convert E (s.P.argAt p).tag w (s.P.argAt p).ty (s.P.argAt p).val = .error m) :
    (s.addArgs E (w :: ws)).2 = some (.foreign m) ∧ (s.addArgs E (w :: ws)).1.retargs = s.retargs := by
  have h : s.addArgs E (w :: ws) =
      ({ s with P := s.P.modArg p fun ad => { ad with val := convertFailState ad.ty ad.val },
                err := some (.foreign m) }, some (.foreign m)) := by
    conv => lhs; unfold PS.addArgs
    simp [hq, hconv]
  rw [h]; exact ⟨rfl, rfl⟩

/-- **Options interleaved between the words do not disturb the binding**: applying an option
    changes neither the queue of pending fields nor any positional field. -/
theorem option_keeps_queue (E : Env) (help : HelpFn) (s : PS) (r : ORef) (canarg : Bool) (argument : Option Bytes) :
    (parseOption E help s r canarg argument).1.positional = s.positional := by
  have hpop : ∀ s : PS, s.pop.1.positional = s.positional := by
    intro s; unfold PS.pop; split <;> rfl
  have htake : (takeArgument s r argument).1.positional = s.positional := by
    unfold takeArgument
    split
    · rfl
    · have := hpop s
      generalize s.pop = sp at this
      obtain ⟨s1, a⟩ := sp
      simp only
      split
      · exact this
      · split <;> exact this
  unfold parseOption
  simp only
  split
  · split <;> rfl
  · split
    · generalize takeArgument s r argument = ta at htake
      obtain ⟨s1, a, e⟩ := ta
      cases e with
      | some e => exact htake
      | none => simp only; split <;> exact htake
    · split <;> rfl

/-- **After the `--` terminator option-looking tokens bind as positionals too**: the loop hands
    everything after the terminator to `addArgs` without looking at it. -/
theorem after_terminator_everything_is_positional (E : Env) (help : HelpFn) (fuel : Nat) (s : PS) (rest : List Bytes)
    (hpd : s.P.opts.passDoubleDash = true) (hargs : s.args = B "--" :: rest) :
    parseLoop E help (fuel + 1) s = (PS.addArgs E { s with arg := B "--", args := rest } rest).1 := by
  unfold parseLoop
  simp [PS.eof, PS.pop, hargs, hpd]

/-- the queue starts with the command's fields in declaration order and is refilled with the
    selected command's fields when a command word is read -/
theorem queue_is_declaration_order (s : PS) (ci : Nat) :
    (s.fill ci).positional = (List.range (s.P.cmd ci).args.length).map fun i => (ci, i) := rfl

end GoFlags.C10
