/-
  C10 — Positional arguments bind in declaration order.
-/
import GoFlags.Lemmas.ParseBasics
import GoFlags.Lemmas.Tables
import GoFlags.Lemmas.Interleave

namespace GoFlags.C10
open GoFlags Bytes

/-- **One word, one field, in order.** With a non-slice field at the head of the queue, a word
    that converts is stored in that field, the field leaves the queue, and the rest of the
    words go on to the remaining fields. -/
theorem word_fills_next_field (E : Env) (s : PS) (w : Bytes) (ws : List Bytes) (p : Nat × Nat) (ps : List (Nat × Nat))
    (v : Val) (hq : s.positional = p :: ps) (hrem : (s.P.argAt p).isRemaining = false)
    (hconv : convert E (s.P.argAt p).tag w (s.P.argAt p).ty (s.P.argAt p).val = .ok v) :
    s.addArgs E (w :: ws) =
      PS.addArgs E { s with P := s.P.modArg p fun ad => { ad with val := v }, positional := ps } ws := by
  conv => lhs; unfold PS.addArgs
  simp [hq, hconv, hrem]

/-- **A trailing slice field absorbs every further word** and stays at the head of the queue. -/
theorem slice_field_absorbs (E : Env) (s : PS) (w : Bytes) (ws : List Bytes) (p : Nat × Nat) (ps : List (Nat × Nat))
    (v : Val) (hq : s.positional = p :: ps) (hrem : (s.P.argAt p).isRemaining = true)
    (hconv : convert E (s.P.argAt p).tag w (s.P.argAt p).ty (s.P.argAt p).val = .ok v) :
    s.addArgs E (w :: ws) =
      PS.addArgs E { s with P := s.P.modArg p fun ad => { ad with val := v }, positional := p :: ps } ws := by
  conv => lhs; unfold PS.addArgs
  simp [hq, hconv, hrem]

/-- **Words beyond the declared fields become remaining arguments**, verbatim and in order. -/
theorem extra_words_remain (E : Env) (s : PS) (ws : List Bytes) (hq : s.positional = []) :
    s.addArgs E ws = ({ s with retargs := s.retargs ++ ws }, none) := by
  cases ws with
  | nil => simp [PS.addArgs]
  | cons w ws => simp [PS.addArgs, hq]

/-- a word that does not convert stops the parse with the converter's own error; the fields
    filled so far keep their values and nothing is added to the remaining arguments -/
theorem conversion_error_stops (E : Env) (s : PS) (w : Bytes) (ws : List Bytes) (p : Nat × Nat) (ps : List (Nat × Nat))
    (m : Bytes) (hq : s.positional = p :: ps)
    (hconv : convert E (s.P.argAt p).tag w (s.P.argAt p).ty (s.P.argAt p).val = .error m) :
    (s.addArgs E (w :: ws)).2 = some (.foreign m) ∧ (s.addArgs E (w :: ws)).1.retargs = s.retargs := by
  have h : s.addArgs E (w :: ws) =
      ({ s with P := s.P.modArg p fun ad => { ad with val := convertFailState ad.ty ad.val },
                err := some (.foreign m) }, some (.foreign m)) := by
    conv => lhs; unfold PS.addArgs
    simp [hq, hconv]
  rw [h]; exact ⟨rfl, rfl⟩

/-- **Options interleaved between the words do not disturb the binding**: applying an option
    changes neither the queue of pending fields nor any positional field. -/
theorem option_keeps_queue (E : Env) (help : HelpFn) (s : PS) (r : ORef) (canarg : Bool) (argument : Option Bytes) :
    (parseOption E help s r canarg argument).1.positional = s.positional := by
  have hpop : ∀ s : PS, s.pop.1.positional = s.positional := by
    intro s; unfold PS.pop; split <;> rfl
  have htake : (takeArgument s r argument).1.positional = s.positional := by
    unfold takeArgument
    split
    · rfl
    · have := hpop s
      generalize s.pop = sp at this
      obtain ⟨s1, a⟩ := sp
      simp only
      split
      · exact this
      · split <;> exact this
  unfold parseOption
  simp only
  split
  · split <;> rfl
  · split
    · generalize takeArgument s r argument = ta at htake
      obtain ⟨s1, a, e⟩ := ta
      cases e with
      | some e => exact htake
      | none => simp only; split <;> exact htake
    · split <;> rfl

/-- **After the `--` terminator option-looking tokens bind as positionals too**: the loop hands
    everything after the terminator to `addArgs` without looking at it. -/
theorem after_terminator_everything_is_positional (E : Env) (help : HelpFn) (fuel : Nat) (s : PS) (rest : List Bytes)
    (hpd : s.P.opts.passDoubleDash = true) (hargs : s.args = B "--" :: rest) :
    parseLoop E help (fuel + 1) s = (PS.addArgs E { s with arg := B "--", args := rest } rest).1 := by
  unfold parseLoop
  simp [PS.eof, PS.pop, hargs, hpd]

/-- the queue starts with the command's fields in declaration order and is refilled with the
    selected command's fields when a command word is read -/
theorem queue_is_declaration_order (s : PS) (ci : Nat) :
    (s.fill ci).positional = (List.range (s.P.cmd ci).args.length).map fun i => (ci, i) := rfl

/-! ### Whole lists of words -/

theorem argAt_modArg_same (P : Parser) (a : Nat × Nat) (f : ArgD → ArgD)
    (h1 : a.1 < P.cmds.length) (h2 : a.2 < (P.cmd a.1).args.length) :
    (P.modArg a f).argAt a = f (P.argAt a) := by
  unfold Parser.modArg Parser.argAt
  rw [Parser.cmd_modCmd_same P a.1 _ h1]
  simp only
  exact listModify_getD_same _ _ _ _ h2

theorem argAt_modArg_ne (P : Parser) (a b : Nat × Nat) (f : ArgD → ArgD) (h : a ≠ b) :
    (P.modArg a f).argAt b = P.argAt b := by
  unfold Parser.modArg Parser.argAt
  by_cases hc : a.1 = b.1
  · by_cases hl : a.1 < P.cmds.length
    · rw [← hc, Parser.cmd_modCmd_same P a.1 _ hl]
      simp only
      apply listModify_getD_ne
      intro h2; apply h; exact Prod.ext hc h2
    · rw [Parser.modCmd_of_le P a.1 _ (by omega)]
  · rw [Parser.cmd_modCmd_ne P a.1 b.1 _ hc]

/-- a pending positional field that exists -/
def ArgValid (P : Parser) (a : Nat × Nat) : Prop := a.1 < P.cmds.length ∧ a.2 < (P.cmd a.1).args.length

theorem ArgValid_modArg (P : Parser) (a b : Nat × Nat) (f : ArgD → ArgD) (h : ArgValid P b) : ArgValid (P.modArg a f) b := by
  unfold ArgValid Parser.modArg at *
  obtain ⟨h1, h2⟩ := h
  refine ⟨by simp [Parser.modCmd, listModify_length]; exact h1, ?_⟩
  by_cases hc : a.1 = b.1
  · rw [← hc] at h1 h2 ⊢
    rw [Parser.cmd_modCmd_same P a.1 _ h1]
    simp only [listModify_length]; exact h2
  · rw [Parser.cmd_modCmd_ne P a.1 b.1 _ hc]; exact h2

/-- **The k-th word lands in the k-th pending field.**  With `n` scalar fields pending (distinct,
    none of them the rest slice) and at most `n` words that all convert, every word is stored in
    the field at the same position of the queue, the fields used leave the queue, nothing goes to
    the remaining arguments and no error is raised — for any number of fields and words. -/
theorem words_fill_fields_in_order (E : Env) : ∀ (ws : List Bytes) (s : PS) (q : List (Nat × Nat)),
    s.positional = q → ws.length ≤ q.length → q.Nodup → (∀ a ∈ q, ArgValid s.P a) →
    (∀ a ∈ q, (s.P.argAt a).isRemaining = false) →
    (∀ k (hk : k < ws.length), ∃ v, convert E (s.P.argAt (q.getD k default)).tag (ws.getD k []) (s.P.argAt (q.getD k default)).ty
        (s.P.argAt (q.getD k default)).val = .ok v) →
    (s.addArgs E ws).2 = none ∧ (s.addArgs E ws).1.retargs = s.retargs ∧
    (s.addArgs E ws).1.positional = q.drop ws.length ∧
    ∀ k, k < ws.length →
      convert E (s.P.argAt (q.getD k default)).tag (ws.getD k []) (s.P.argAt (q.getD k default)).ty
        (s.P.argAt (q.getD k default)).val = .ok ((s.addArgs E ws).1.P.argAt (q.getD k default)).val := by
  intro ws
  induction ws with
  | nil => intro s q hq _ _ _ _ _; simp [PS.addArgs, hq]
  | cons w ws ih =>
    intro s q hq hlen hnd hval hrem hconv
    cases q with
    | nil => simp at hlen
    | cons p ps =>
      obtain ⟨v, hv⟩ := hconv 0 (by simp)
      simp only [List.getD_cons_zero] at hv
      have hremp : (s.P.argAt p).isRemaining = false := hrem p (by simp)
      rw [word_fills_next_field E s w ws p ps v hq hremp hv]
      let s' : PS := { s with P := s.P.modArg p fun ad => { ad with val := v }, positional := ps }
      have hpnot : p ∉ ps := (List.nodup_cons.mp hnd).1
      have hother : ∀ a ∈ ps, s'.P.argAt a = s.P.argAt a := by
        intro a ha
        apply argAt_modArg_ne
        intro e; subst e; exact hpnot ha
      have hvalp := hval p (by simp)
      have ih' := ih s' ps rfl (by simp at hlen; omega) (List.nodup_cons.mp hnd).2
        (fun a ha => ArgValid_modArg _ _ _ _ (hval a (by simp [ha])))
        (fun a ha => by rw [hother a ha]; exact hrem a (by simp [ha]))
        (fun k hk => by
          have hmem : ps.getD k default ∈ ps := by
            rw [List.getD_eq_getElem?_getD, List.getElem?_eq_getElem (by simp at hlen; omega)]
            simp
          rw [hother _ hmem]
          have := hconv (k + 1) (by simp; omega)
          simpa using this)
      obtain ⟨h1, h2, h3, h4⟩ := ih'
      refine ⟨h1, h2, by simpa using h3, ?_⟩
      intro k hk
      cases k with
      | zero =>
        simp only [List.getD_cons_zero]
        -- the first field keeps the value stored now: later words go to other fields
        have hkeep : ∀ (ws' : List Bytes) (t : PS), p ∉ t.positional → (t.addArgs E ws').1.P.argAt p = t.P.argAt p := by
          intro ws'
          induction ws' with
          | nil => intro t _; simp [PS.addArgs]
          | cons x xs ihx =>
            intro t hpt
            unfold PS.addArgs
            cases hq' : t.positional with
            | nil => simp
            | cons a as =>
              simp only
              have hap : a ≠ p := by intro e; apply hpt; rw [hq', e]; simp
              split
              · simp only; exact argAt_modArg_ne _ _ _ _ hap
              · rw [ihx _ (by
                  simp only
                  split
                  · rw [← hq']; exact hpt
                  · intro hm; apply hpt; rw [hq']; exact List.mem_cons_of_mem _ hm)]
                exact argAt_modArg_ne _ _ _ _ hap
        rw [hkeep ws s' hpnot]
        have : s'.P.argAt p = { s.P.argAt p with val := v } := argAt_modArg_same _ _ _ hvalp.1 hvalp.2
        rw [this]; exact hv
      | succ k =>
        simp only [List.getD_cons_succ]
        have hmem : ps.getD k default ∈ ps := by
          rw [List.getD_eq_getElem?_getD, List.getElem?_eq_getElem (by simp at hk hlen; omega)]
          simp
        have := h4 k (by simp at hk; omega)
        rw [hother _ hmem] at this
        exact this
/-! ### The rest slice -/


/-- element-wise conversion of words into slice elements -/
def ConvWords (E : Env) (tag : Tag) (sc : Sc) : List Bytes → List SVal → Prop
  | [], [] => True
  | w :: ws, v :: vs => convertSc E tag w sc = .ok v ∧ ConvWords E tag sc ws vs
  | _, _ => False

/-- **The rest slice absorbs every further word, in order**: with a slice field at the head of the
    queue, any number of words that all convert end up appended to it in the order given; the field
    stays pending, nothing goes to the remaining arguments, no error. -/
theorem rest_slice_absorbs_all (E : Env) (sc : Sc) : ∀ (ws : List Bytes) (vs : List SVal) (s : PS) (p : Nat × Nat) (q : List (Nat × Nat))
    (old : List SVal) (nl : Bool),
    s.positional = p :: q → ArgValid s.P p → (s.P.argAt p).ty = .slice sc → (s.P.argAt p).val = .slice nl old →
    ConvWords E (s.P.argAt p).tag sc ws vs →
    (s.addArgs E ws).2 = none ∧ (s.addArgs E ws).1.retargs = s.retargs ∧ (s.addArgs E ws).1.positional = p :: q ∧
    ((s.addArgs E ws).1.P.argAt p).val = (if ws = [] then .slice nl old else .slice false (old ++ vs)) := by
  intro ws
  induction ws with
  | nil =>
    intro vs s p q old nl hq _ _ hval _
    simp [PS.addArgs, hq, hval]
  | cons w ws ih =>
    intro vs s p q old nl hq hvalid hty hval hconv
    cases vs with
    | nil => simp [ConvWords] at hconv
    | cons v vs =>
      obtain ⟨hc1, hcrest⟩ := hconv
      have hrem : (s.P.argAt p).isRemaining = true := by unfold ArgD.isRemaining; rw [hty]
      have hcv : convert E (s.P.argAt p).tag w (s.P.argAt p).ty (s.P.argAt p).val = .ok (.slice false (old ++ [v])) := by
        rw [hty, hval]; simp [convert, hc1]; rfl
      rw [slice_field_absorbs E s w ws p q _ hq hrem hcv]
      let s' : PS := { s with P := s.P.modArg p fun ad => { ad with val := .slice false (old ++ [v]) }, positional := p :: q }
      have hat : s'.P.argAt p = { s.P.argAt p with val := .slice false (old ++ [v]) } := argAt_modArg_same _ _ _ hvalid.1 hvalid.2
      have := ih vs s' p q (old ++ [v]) false rfl (ArgValid_modArg _ _ _ _ hvalid) (by rw [hat]; exact hty) (by rw [hat])
        (by rw [hat]; exact hcrest)
      obtain ⟨h1, h2, h3, h4⟩ := this
      refine ⟨h1, h2, h3, ?_⟩
      rw [h4]
      simp only [List.cons_ne_nil, if_false]
      split
      · next hnil =>
        subst hnil
        cases vs with
        | nil => simp
        | cons _ _ => simp [ConvWords] at hcrest
      · simp

/-! ### Whole command lines: options interleaved with the words -/


/-- **Options interleaved between the words do not disturb the binding — whole command lines.**
    For a command line of any length that mixes option occurrences (`--name=V`, `--flag`, options in
    scope) and plain words in any order, at a command without subcommands: every positional field,
    the queue of pending fields and the remaining arguments end exactly as if the words alone had
    been given, in their order, and those words alone raise no error either. -/
theorem interleaved_options_do_not_disturb_binding (E : Env) (help : HelpFn) (items : List Item) (fuel : Nat) (s : PS)
    (hf : items.length < fuel) (hargs : s.args = renderItems items) (hok : ItemsOK s items)
    (hres : (applyItems E help s items).2 = none) :
    let fin := parseLoop E help fuel s
    let alone := (s.addArgs E (wordsOf items)).1
    (∀ a, fin.P.argAt a = alone.P.argAt a) ∧ fin.positional = alone.positional ∧ fin.retargs = alone.retargs ∧
    (s.addArgs E (wordsOf items)).2 = none := by
  simp only
  rw [parseLoop_of_items E help items fuel s hf hargs hok hres]
  obtain ⟨h, he⟩ := items_bind_like_words_alone E help items s s (ArgsAgree.refl s) hok hres
  exact ⟨fun a => h.args.argAt a, h.pos, h.ret, he⟩

end GoFlags.C10
