/-
  C03 — Unconsumed arguments are conserved, in order.
-/
import GoFlags.Lemmas.ParseBasics
import GoFlags.Props.C10

namespace GoFlags.C03
open GoFlags Bytes

theorem foldl_modOpt_cfg (f : Opt → Opt) (rs : List ORef) (P : Parser) :
    (rs.foldl (fun P r => P.modOpt r f) P).cfg = P.cfg := by
  induction rs generalizing P with
  | nil => rfl
  | cons r rs ih => simp only [List.foldl_cons]; rw [ih]; rfl

theorem addHelpGroups_cfg (P : Parser) : P.addHelpGroups.cfg = P.cfg := rfl

theorem clearDefaultsAll_retargs (E : Env) (help : HelpFn) (rs : List ORef) (s : PS) :
    (clearDefaultsAll E help rs s).retargs = s.retargs := by
  induction rs generalizing s with
  | nil => rfl
  | cons r rs ih =>
    unfold clearDefaultsAll
    generalize optClearDefault E help s.P r s.log = res
    obtain ⟨P, log, e⟩ := res
    cases e <;> simp only <;> rw [ih]

theorem checkRequired_retargs (s : PS) : (checkRequired s).retargs = s.retargs := by
  unfold checkRequired
  simp only
  split
  · split <;> rfl
  · split <;> rfl

theorem prepare_cfg (E : Env) (P : Parser) : (prepare E P).cfg = P.cfg := by
  unfold prepare
  simp only
  show (if _ then _ else _ : Parser).cfg = P.cfg
  split
  · rw [addHelpGroups_cfg, foldl_modOpt_cfg]
  · rw [foldl_modOpt_cfg]

/-- the parse phase only ever collects a sublist of the argument vector -/
theorem parsePhase_retargs_sublist (E : Env) (help : HelpFn) (P : Parser) (argv : List Bytes)
    (hh : P.cfg.1.shrinks = true) : (parsePhase E help P argv).retargs.Sublist argv := by
  unfold parsePhase
  simp only
  obtain ⟨r, hr, hsub⟩ := parseLoop_conserves E help (4 * argv.length + 16) (({ P := P, args := argv } : PS).fill 0) hh
  have hr' : (parseLoop E help (4 * argv.length + 16) (({ P := P, args := argv } : PS).fill 0)).retargs = r := by
    simpa [PS.fill] using hr
  have hsub' : r.Sublist argv := by simpa [PS.fill] using hsub
  split
  · rw [checkRequired_retargs, clearDefaultsAll_retargs, hr']; exact hsub'
  · rw [hr']; exact hsub'

/-- on success `ParseArgs` returns exactly what the parse phase collected -/
theorem finishParse_ret_of_ok (s : PS) (oc : Option GoErr × List Event)
    (h : (finishParse s oc).err = none) : (finishParse s oc).ret = s.retargs := by
  unfold finishParse at h ⊢
  split
  · rfl
  · next e he => simp [he] at h

/-- **No token is invented, altered, duplicated or reordered.**  For every declaration, every
    parser option set, every argument vector (arbitrary bytes) and every unknown-option
    handler that cannot itself invent tokens: on success the returned remaining arguments are a
    sublist of the argument vector — the same tokens, verbatim, in their original order. -/
theorem remaining_args_sublist (E : Env) (help : HelpFn) (P : Parser) (argv : List Bytes)
    (hh : P.handler.shrinks = true)
    (hok : (parseArgs E help P argv).err = none) :
    (parseArgs E help P argv).ret.Sublist argv := by
  unfold parseArgs at hok ⊢
  split at hok
  · simp at hok
  · simp only at hok ⊢
    rw [finishParse_ret_of_ok _ _ hok]
    exact parsePhase_retargs_sublist E help _ argv (by rw [prepare_cfg]; exact hh)

/-- What `addArgs` passes on is a *suffix* of what it is given: pass-through (after `--`, after
    the first non-option, an ignored unknown option) never drops a token from the middle, never
    alters one and never reorders. -/
theorem passthrough_is_suffix (E : Env) (s : PS) (as : List Bytes) :
    ∃ r, (s.addArgs E as).1.retargs = s.retargs ++ r ∧ r <:+ as :=
  (addArgs_spec E s as).2.2.2.2

/-- With no positional argument pending, everything given to `addArgs` is passed on verbatim. -/
theorem passthrough_verbatim (E : Env) (s : PS) (as : List Bytes) (h : s.positional = []) :
    (s.addArgs E as).1.retargs = s.retargs ++ as := by
  cases as with
  | nil => simp [PS.addArgs]
  | cons a as => simp [PS.addArgs, h]

/-- The command (or `CommandHandler`) is handed exactly the remaining arguments that are
    returned. -/
theorem dispatch_passes_retargs (s : PS) (ev : Event) (h : ev ∈ (dispatch s).2) (hnew : ev ∉ s.log) :
    ev = .exec s.cmd s.retargs ∨ ev = .cmdHandler (some s.cmd) s.retargs ∨ ev = .cmdHandler none s.retargs := by
  unfold dispatch at h
  simp only at h
  split at h
  · exact absurd h hnew
  · split at h
    · split at h
      · simp only [List.mem_append, List.mem_cons, List.not_mem_nil, or_false] at h
        rcases h with h | h | h
        · exact absurd h hnew
        · right; left; exact h
        · left; exact h
      · simp only [List.mem_append, List.mem_cons, List.not_mem_nil, or_false] at h
        rcases h with h | h
        · exact absurd h hnew
        · left; exact h
    · split at h
      · simp only [List.mem_append, List.mem_cons, List.not_mem_nil, or_false] at h
        rcases h with h | h
        · exact absurd h hnew
        · right; right; exact h
      · exact absurd h hnew

/-! Non-vacuity: handlers that satisfy `shrinks`. -/
example : (Handler.none).shrinks = true := rfl
example : (Handler.dropNext).shrinks = true := rfl


/-! ### Whole command lines: exactly the unconsumed words remain -/


/-- **The remaining arguments are exactly the unconsumed tokens, in order — whole command lines.**
    For a command line of any length that mixes option occurrences and plain words in any order
    (no positional field pending, no subcommands), the parser ends with exactly the plain words, in
    their order, appended to what it held: every option token is consumed, no word is dropped,
    duplicated, altered or moved. -/
theorem remaining_are_exactly_the_words (E : Env) (help : HelpFn) (items : List Item) (fuel : Nat) (s : PS)
    (hf : items.length < fuel) (hargs : s.args = renderItems items) (hok : ItemsOK s items)
    (hres : (applyItems E help s items).2 = none) (hq : s.positional = []) :
    (parseLoop E help fuel s).retargs = s.retargs ++ wordsOf items := by
  obtain ⟨_, _, h, _⟩ := C10.interleaved_options_do_not_disturb_binding E help items fuel s hf hargs hok hres
  rw [h, C10.extra_words_remain E s _ hq]


/-! non-vacuity: the command line `a --v b` on a parser with one flag `--v` meets every hypothesis
    of the two whole-command-line theorems -/
def exFlagP : Parser := { cmds := [{ groups := [{ opts := [{ long := B "v", ty := .sc .bool }] }] }] }
def exItems : List Item := [.word (B "a"), .occ (B "v", none), .word (B "b")]
def exS : PS := { P := exFlagP, args := renderItems exItems }
example : ItemsOK exS exItems :=
  ⟨by decide, by decide,
   by intro it h; simp [exItems, occsOf] at h; subst h; exact ⟨⟨by decide, by decide, by decide⟩, ⟨0,0,0⟩, by decide, fun _ => by decide⟩,
   by intro w h; simp [exItems, wordsOf] at h; rcases h with h | h <;> (subst h; exact Or.inl ⟨by decide, by decide⟩)⟩
example : (applyItems default (fun _ => []) exS exItems).2 = none := by decide
example : (applyItems default (fun _ => []) exS exItems).1.retargs = [B "a", B "b"] := by decide
end GoFlags.C03
