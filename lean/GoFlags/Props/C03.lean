/-
  C03 — Unconsumed arguments are conserved, in order.
-/
import GoFlags.Lemmas.InterleaveTail
import GoFlags.Lemmas.ParseBasics
import GoFlags.Props.C10

namespace GoFlags.C03
open GoFlags Bytes

theorem foldl_modOpt_cfg (f : Opt → Opt) (rs : List ORef) (P : Parser) :
    (rs.foldl (fun P r => P.modOpt r f) P).cfg = P.cfg := by
  induction rs generalizing P with
  | nil => rfl
  | cons r rs ih => simp only [List.foldl_cons]; rw [ih]; rfl

theorem addHelpGroups_cfg (P : Parser) : P.addHelpGroups.cfg = P.cfg := rfl

theorem clearDefaultsAll_retargs (E : Env) (help : HelpFn) (rs : List ORef) (s : PS) :
    (clearDefaultsAll E help rs s).retargs = s.retargs := by
  induction rs generalizing s with
  | nil => rfl
  | cons r rs ih =>
    unfold clearDefaultsAll
    generalize optClearDefault E help s.P r s.log = res
    obtain ⟨P, log, e⟩ := res
    cases e <;> simp only <;> rw [ih]

theorem checkRequired_retargs (s : PS) : (checkRequired s).retargs = s.retargs := by
  unfold checkRequired
  simp only
  split
  · split <;> rfl
  · split <;> rfl

theorem prepare_cfg (E : Env) (P : Parser) : (prepare E P).cfg = P.cfg := by
  unfold prepare
  simp only
  show (if _ then _ else _ : Parser).cfg = P.cfg
  split
  · rw [addHelpGroups_cfg, foldl_modOpt_cfg]
  · rw [foldl_modOpt_cfg]

/-- the parse phase only ever collects a sublist of the argument vector -/
theorem parsePhase_retargs_sublist (E : Env) (help : HelpFn) (P : Parser) (argv : List Bytes)
    (hh : P.cfg.1.shrinks = true) : (parsePhase E help P argv).retargs.Sublist argv := by
  unfold parsePhase
  simp only
  obtain ⟨r, hr, hsub⟩ := parseLoop_conserves E help (4 * argv.length + 16) (({ P := P, args := argv } : PS).fill 0) hh
  have hr' : (parseLoop E help (4 * argv.length + 16) (({ P := P, args := argv } : PS).fill 0)).retargs = r := by
    simpa [PS.fill] using hr
  have hsub' : r.Sublist argv := by simpa [PS.fill] using hsub
  split
  · rw [checkRequired_retargs, clearDefaultsAll_retargs, hr']; exact hsub'
  · rw [hr']; exact hsub'

/-- on success `ParseArgs` returns exactly what the parse phase collected -/
theorem finishParse_ret_of_ok (s : PS) (oc : Option GoErr × List Event)
    (h : (finishParse s oc).err = none) : (finishParse s oc).ret = s.retargs := by
  unfold finishParse at h ⊢
  split
  · rfl
  · next e he => simp [he] at h

/-- **No token is invented, altered, duplicated or reordered.**  For every declaration, every
    parser option set, every argument vector (arbitrary bytes) and every unknown-option
    handler that cannot itself invent tokens: on success the returned remaining arguments are a
    sublist of the argument vector — the same tokens, verbatim, in their original order. -/
theorem remaining_args_sublist (E : Env) (help : HelpFn) (P : Parser) (argv : List Bytes)
    (hh : P.handler.shrinks = true)
    (hok : (parseArgs E help P argv).err = none) :
    (parseArgs E help P argv).ret.Sublist argv := by
  unfold parseArgs at hok ⊢
  split at hok
  · simp at hok
  · simp only at hok ⊢
    rw [finishParse_ret_of_ok _ _ hok]
    exact parsePhase_retargs_sublist E help _ argv (by rw [prepare_cfg]; exact hh)

/-- What `addArgs` passes on is a *suffix* of what it is given: pass-through (after `--`, after
    the first non-option, an ignored unknown option) never drops a token from the middle, never
    alters one and never reorders. -/
theorem passthrough_is_suffix (E : Env) (s : PS) (as : List Bytes) :
    ∃ r, (s.addArgs E as).1.retargs = s.retargs ++ r ∧ r <:+ as :=
  (addArgs_spec E s as).2.2.2.2

/-- With no positional argument pending, everything given to `addArgs` is passed on verbatim. -/
theorem passthrough_verbatim (E : Env) (s : PS) (as : List Bytes) (h : s.positional = []) :
    (s.addArgs E as).1.retargs = s.retargs ++ as := by
  cases as with
  | nil => simp [PS.addArgs]
  | cons a as => simp [PS.addArgs, h]

/-- The command (or `CommandHandler`) is handed exactly the remaining arguments that are
    returned. -/
theorem dispatch_passes_retargs (s : PS) (ev : Event) (h : ev ∈ (dispatch s).2) (hnew : ev ∉ s.log) :
    ev = .exec s.cmd s.retargs ∨ ev = .cmdHandler (some s.cmd) s.retargs ∨ ev = .cmdHandler none s.retargs := by
  unfold dispatch at h
  simp only at h
  split at h
  · exact absurd h hnew
  · split at h
    · split at h
      · simp only [List.mem_append, List.mem_cons, List.not_mem_nil, or_false] at h
        rcases h with h | h | h
        · exact absurd h hnew
        · right; left; exact h
        · left; exact h
      · simp only [List.mem_append, List.mem_cons, List.not_mem_nil, or_false] at h
        rcases h with h | h
        · exact absurd h hnew
        · left; exact h
    · split at h
      · simp only [List.mem_append, List.mem_cons, List.not_mem_nil, or_false] at h
        rcases h with h | h
        · exact absurd h hnew
        · right; right; exact h
      · exact absurd h hnew

/-! Non-vacuity: handlers that satisfy `shrinks`. -/
example : (Handler.none).shrinks = true := rfl
example : (Handler.dropNext).shrinks = true := rfl


/-! ### Whole command lines: exactly the unconsumed words remain -/


/-- **The remaining arguments are exactly the unconsumed tokens, in order — whole command lines.**
    For a command line of any length that mixes option occurrences and plain words in any order
    (no positional field pending, no subcommands), the parser ends with exactly the plain words, in
    their order, appended to what it held: every option token is consumed, no word is dropped,
    duplicated, altered or moved. -/
theorem remaining_are_exactly_the_words (E : Env) (help : HelpFn) (items : List Item) (fuel : Nat) (s : PS)
    (hf : items.length < fuel) (hargs : s.args = renderItems items) (hok : ItemsOK s items)
    (hres : (applyItems E help s items).2 = none) (hq : s.positional = []) :
    (parseLoop E help fuel s).retargs = s.retargs ++ wordsOf items := by
  obtain ⟨_, _, h, _⟩ := C10.interleaved_options_do_not_disturb_binding E help items fuel s hf hargs hok hres
  rw [h, C10.extra_words_remain E s _ hq]


/-- binding a list of words is binding a first part and then, unless that failed, the rest -/
theorem addArgs_append (E : Env) (as bs : List Bytes) : ∀ (s : PS),
    s.addArgs E (as ++ bs) = match s.addArgs E as with
      | (s', none) => s'.addArgs E bs
      | r => r := by
  induction as with
  | nil => intro s; simp [addArgs_nil]
  | cons a as ih =>
    intro s
    rw [List.cons_append, addArgs_cons E s a (as ++ bs), addArgs_cons E s a as]
    generalize s.addArgs E [a] = r
    obtain ⟨s', e⟩ := r
    cases e with
    | none => simp only; exact ih s'
    | some e => rfl

/-- **Everything after the `--` terminator is passed through verbatim — whole command lines.**
    For a command line of any length `items ++ ["--"] ++ tail` under PassDoubleDash, where the
    items mix option occurrences and plain words in any order and `tail` is ANY list of tokens
    (option-looking ones, further terminators, arbitrary bytes): the positional fields, the queue
    of pending fields and the remaining arguments end exactly as if the plain words and then the
    whole tail had been handed to the positional binder — first to unfilled positional arguments,
    then to the remaining arguments; nothing behind the terminator is read as an option. -/
theorem everything_behind_the_terminator_is_passed_through (E : Env) (help : HelpFn) (items : List Item)
    (tail : List Bytes) (fuel : Nat) (s : PS)
    (hargs : s.args = renderItems items ++ B "--" :: tail) (hok : ItemsOK s items)
    (hdd : s.P.opts.passDoubleDash = true)
    (hres : (applyItemsT E help (B "--" :: tail) s items).2 = none) :
    let fin := parseLoop E help (fuel + 1 + items.length) s
    let alone := (s.addArgs E (wordsOf items ++ tail)).1
    (∀ a, fin.P.argAt a = alone.P.argAt a) ∧ fin.positional = alone.positional ∧ fin.retargs = alone.retargs := by
  simp only
  obtain ⟨h1, h2, _, h4⟩ := parseLoop_of_items_tail E help (B "--" :: tail) items (fuel + 1) s hargs hok hres
  obtain ⟨hag, he⟩ := items_bind_like_words_alone_tail E help (B "--" :: tail) items s s (ArgsAgree.refl s) hok hres
  rw [h1]
  generalize applyItemsT E help (B "--" :: tail) s items = r1 at h2 h4 hag
  obtain ⟨s1, e1⟩ := r1
  simp only at h2 h4 hag ⊢
  -- one step of the loop: the terminator
  have hstep : parseLoop E help (fuel + 1) s1 = (({ s1 with arg := B "--", args := tail } : PS).addArgs E tail).1 := by
    rw [parseLoop.eq_def]
    simp only [PS.eof, h2, PS.pop]
    have : s1.P.opts.passDoubleDash = true := by rw [h4.opts]; exact hdd
    simp [this]
  rw [hstep, addArgs_append E (wordsOf items) tail s]
  generalize s.addArgs E (wordsOf items) = r2 at hag he
  obtain ⟨t1, e2⟩ := r2
  simp only at hag he
  subst he
  simp only
  have hc := addArgs_congr E tail { s1 with arg := B "--", args := tail } t1 ⟨hag.pos, hag.ret, hag.args⟩
  exact ⟨fun a => hc.1.args.argAt a, hc.1.pos, hc.1.ret⟩

/-- … and with no positional field pending: the parser ends with exactly the plain words in
    front of the terminator and everything behind it, verbatim, in order. -/
theorem remaining_are_the_words_and_everything_behind_the_terminator (E : Env) (help : HelpFn) (items : List Item)
    (tail : List Bytes) (fuel : Nat) (s : PS)
    (hargs : s.args = renderItems items ++ B "--" :: tail) (hok : ItemsOK s items)
    (hdd : s.P.opts.passDoubleDash = true)
    (hres : (applyItemsT E help (B "--" :: tail) s items).2 = none) (hq : s.positional = []) :
    (parseLoop E help (fuel + 1 + items.length) s).retargs = s.retargs ++ wordsOf items ++ tail := by
  obtain ⟨_, _, h⟩ := everything_behind_the_terminator_is_passed_through E help items tail fuel s hargs hok hdd hres
  rw [h, C10.extra_words_remain E s _ hq, List.append_assoc]

/-- **PassAfterNonOption: from the first word that is neither an option nor a command on,
    everything is passed through.**  One step of the loop on such a word hands the word and then
    ALL the tokens behind it to the positional binder (unfilled positional arguments first, then
    the remaining arguments); none of them is read as an option, a terminator or a command. -/
theorem first_plain_word_passes_everything_behind_it (E : Env) (help : HelpFn) (fuel : Nat) (s : PS) (w : Bytes)
    (tail : List Bytes) (hargs : s.args = w :: tail) (hpa : s.P.opts.passAfterNonOption = true)
    (hw : argumentIsOption w = false) (hdd : ¬ (s.P.opts.passDoubleDash = true ∧ w = B "--"))
    (hc : (s.P.lookupCmd s.cmd w).isNone = true) :
    parseLoop E help (fuel + 1) s =
      match ({ s with arg := w, args := tail } : PS).addArgs E [w] with
      | (s', some _) => s'
      | (s', none) => (s'.addArgs E s'.args).1 := by
  rw [parseLoop.eq_def]
  simp only [PS.eof, hargs, PS.pop]
  have h1 : (s.P.opts.passDoubleDash && decide (w = B "--")) = false := by
    cases hd : s.P.opts.passDoubleDash <;> simp_all
  simp [h1, hw, hpa, hc]
  rfl

/-! non-vacuity: the command line `a --v b` on a parser with one flag `--v` meets every hypothesis
    of the two whole-command-line theorems -/
def exFlagP : Parser := { cmds := [{ groups := [{ opts := [{ long := B "v", ty := .sc .bool }] }] }] }
def exItems : List Item := [.word (B "a"), .occ (B "v", none), .word (B "b")]
def exS : PS := { P := exFlagP, args := renderItems exItems }
example : ItemsOK exS exItems :=
  ⟨by decide, by decide,
   by intro it h; simp [exItems, occsOf] at h; subst h; exact ⟨⟨by decide, by decide, by decide⟩, ⟨0,0,0⟩, by decide, fun _ => by decide⟩,
   by intro w h; simp [exItems, wordsOf] at h; rcases h with h | h <;> (subst h; exact Or.inl ⟨by decide, by decide⟩)⟩
example : (applyItems default (fun _ => []) exS exItems).2 = none := by decide
example : (applyItems default (fun _ => []) exS exItems).1.retargs = [B "a", B "b"] := by decide

/-! non-vacuity of the terminator theorems: `a --v -- --v x` under PassDoubleDash -/
def exDDP : Parser := { exFlagP with opts := { passDoubleDash := true } }
def exDDItems : List Item := [.word (B "a"), .occ (B "v", none)]
def exDDTail : List Bytes := [B "--v", B "x"]
def exDDS : PS := { P := exDDP, args := renderItems exDDItems ++ B "--" :: exDDTail }
example : ItemsOK exDDS exDDItems :=
  ⟨by decide, by decide,
   by intro it h; simp [exDDItems, occsOf] at h; subst h; exact ⟨⟨by decide, by decide, by decide⟩, ⟨0,0,0⟩, by decide, fun _ => by decide⟩,
   by intro w h; simp [exDDItems, wordsOf] at h; subst h; exact Or.inl ⟨by decide, by decide⟩⟩
example : (applyItemsT default (fun _ => []) (B "--" :: exDDTail) exDDS exDDItems).2 = none := by decide
example : (parseLoop default (fun _ => []) 10 exDDS).retargs = [B "a", B "--v", B "x"] := by decide
end GoFlags.C03
