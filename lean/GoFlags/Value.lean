/-
  Option field types and values (the reflect-transported part of an option), and
  convert.go: `convert`, `convertToString`.
-/
import GoFlags.Strconv
import GoFlags.Multitag

namespace GoFlags
open Bytes

/-- Scalar field types. `plat` marks Go's `int`/`uint` (64 bits here, but printed "int"). -/
inductive Sc where
  | str | bool
  | int (bits : Nat) (plat : Bool)
  | uint (bits : Nat) (plat : Bool)
  | float (bits : Nat)
  | dur
  | custom (id : Nat)
  deriving Repr, DecidableEq, Inhabited

/-- Field types an option can have in the model. -/
inductive Ty where
  | sc (s : Sc)
  | slice (s : Sc)
  | ptr (s : Sc)
  | map (k v : Sc)
  | func (arg : Option Sc) (retErr : Bool)
  deriving Repr, DecidableEq, Inhabited

/-- Scalar values. Durations are `int`; floats are IEEE-754 float64 bit patterns;
    custom string-kinded types are `str`. -/
inductive SVal where
  | str (b : Bytes) | bool (b : Bool) | int (v : Int) | uint (v : Nat) | float (bits : Nat)
  deriving Repr, DecidableEq, Inhabited

inductive Val where
  | sc (v : SVal)
  | slice (isNil : Bool) (xs : List SVal)
  | ptr (v : Option SVal)
  | map (isNil : Bool) (kvs : List (SVal × SVal))
  | func
  deriving Repr, DecidableEq, Inhabited

/-! ### The predeclared custom types of the harness (mirrored exactly; see harness/types.go)

  0 `main.Upper`   string kind; `UnmarshalFlag` rejects values starting with '!' ("bang: "+v),
                   otherwise stores the ASCII upper-casing; `MarshalFlag` returns the ASCII lower-casing.
  1 `main.Vstr`    string kind; `IsValidValue` rejects values starting with '~'
                   ("vstr: bad value "+v); otherwise plain string conversion.
  2 `main.Color`   string kind; `Complete(m)` offers red, green, blue, grey with prefix m.
  3 `flags.Filename` string kind (completion through the file system: not modelled).
-/
def customName : Nat → Bytes
  | 0 => B "main.Upper" | 1 => B "main.Vstr" | 2 => B "main.Color" | 3 => B "flags.Filename"
  | _ => B "main.Unknown"

def upperByte (b : Nat) : Nat := if 0x61 ≤ b && b ≤ 0x7A then b - 0x20 else b

def Sc.name : Sc → Bytes
  | .str => B "string" | .bool => B "bool"
  | .int _ true => B "int" | .int b false => B "int" ++ natToDec b
  | .uint _ true => B "uint" | .uint b false => B "uint" ++ natToDec b
  | .float b => B "float" ++ natToDec b
  | .dur => B "time.Duration"
  | .custom id => customName id

/-- `reflect.Type.String()` (used in the "expected <type>" part of ErrMarshal messages). -/
def Ty.name : Ty → Bytes
  | .sc s => s.name
  | .slice s => B "[]" ++ s.name
  | .ptr s => B "*" ++ s.name
  | .map k v => B "map[" ++ k.name ++ B "]" ++ v.name
  | .func _ _ => B "func"

def Sc.zero : Sc → SVal
  | .str => .str [] | .bool => .bool false | .int _ _ => .int 0 | .uint _ _ => .uint 0
  | .float _ => .float 0 | .dur => .int 0 | .custom _ => .str []

/-- `reflect.Zero(tp)` -/
def Ty.zero : Ty → Val
  | .sc s => .sc s.zero
  | .slice _ => .slice true []
  | .ptr _ => .ptr none
  | .map _ _ => .map true []
  | .func _ _ => .func

/-- `Option.emptyValue`: `MakeMap` for maps, the zero value otherwise. -/
def Ty.emptyValue : Ty → Val
  | .map _ _ => .map false []
  | t => t.zero

def Ty.isFunc : Ty → Bool
  | .func _ _ => true
  | _ => false

/-- `Option.isBool` -/
def Ty.isBool : Ty → Bool
  | .sc .bool | .slice .bool | .ptr .bool => true
  | .func none _ => true
  | _ => false

/-- `Option.isUnmarshaler() != nil` (only `main.Upper`, through the field's address). -/
def Ty.isUnmarshaler : Ty → Bool
  | .sc (.custom 0) => true
  | _ => false

/-- `Option.canArgument` -/
def Ty.canArgument (t : Ty) : Bool := t.isUnmarshaler || !t.isBool

/-- `Option.isSignedNumber` -/
def Ty.isSignedNumber : Ty → Bool
  | .sc (.int _ _) | .slice (.int _ _) | .ptr (.int _ _) => true
  | .sc (.float _) | .slice (.float _) | .ptr (.float _) => true
  | .sc .dur | .slice .dur | .ptr .dur => true          -- time.Duration has kind Int64
  | _ => false

/-- `Option.isValueValidator() != nil` (only `main.Vstr`). -/
def Ty.isValidator : Ty → Bool
  | .sc (.custom 1) => true
  | _ => false

/-! ### convert -/

/-- `getBase(options, 10)`: the error text when the `base` tag is not a 32-bit decimal. -/
def getBase (E : Env) (tag : List (Bytes × Bytes)) : Except Bytes Int :=
  let sbase := tagGet tag (B "base")
  if sbase = [] then .ok 10
  else match parseInt sbase 10 32 with
    | .ok b => .ok b
    | .error e => .error (numErrorText E (B "ParseInt") sbase e)

/-- `convert` into a scalar destination; the error is `err.Error()`. -/
def convertSc (E : Env) (tag : List (Bytes × Bytes)) (val : Bytes) : Sc → Except Bytes SVal
  | .str => .ok (.str val)
  | .bool =>
    if val = [] then .ok (.bool true)
    else match parseBool val with
      | some b => .ok (.bool b)
      | none => .error (numErrorText E (B "ParseBool") val .syntax)
  | .int bits _ => do
    let base ← getBase E tag
    match parseInt val base bits with
    | .ok v => .ok (.int v)
    | .error e => .error (numErrorText E (B "ParseInt") val e)
  | .uint bits _ => do
    let base ← getBase E tag
    match parseUint val base bits with
    | .ok v => .ok (.uint v)
    | .error e => .error (numErrorText E (B "ParseUint") val e)
  | .float bits =>
    match E.parseFloat val bits with
    | .ok v => .ok (.float v)
    | .err m => .error m
  | .dur =>
    match E.parseDuration val with
    | .ok v => .ok (.int v)
    | .err m => .error m
  | .custom 0 =>
    match val with
    | 0x21 :: _ => .error (B "bang: " ++ val)
    | _ => .ok (.str (val.map upperByte))
  | .custom _ => .ok (.str val)

/-- insert-or-replace in an association list (Go map assignment). -/
def mapInsert (k v : SVal) : List (SVal × SVal) → List (SVal × SVal)
  | [] => [(k, v)]
  | (k', v') :: r => if k' = k then (k, v) :: r else (k', v') :: mapInsert k v r

/-- `convert(val, retval, options)` for an option field of type `t` currently holding `cur`. -/
def convert (E : Env) (tag : List (Bytes × Bytes)) (val : Bytes) (t : Ty) (cur : Val) : Except Bytes Val :=
  match t with
  | .sc s => (convertSc E tag val s).map .sc
  | .slice s => do
    let v ← convertSc E tag val s
    match cur with
    | .slice _ xs => .ok (.slice false (xs ++ [v]))
    | _ => .ok (.slice false [v])
  | .ptr s => do
    -- the pointer is allocated before the conversion is attempted
    let v ← convertSc E tag val s
    .ok (.ptr (some v))
  | .map k v => do
    let (ks, vs) := cut 0x3A val
    let kv ← convertSc E tag ks k
    let vv ← convertSc E tag (vs.getD []) v
    match cur with
    | .map _ kvs => .ok (.map false (mapInsert kv vv kvs))
    | _ => .ok (.map false [(kv, vv)])
  | .func _ _ => .ok cur

/-- What a failed `convert` leaves behind in the field (a nil pointer has been allocated). -/
def convertFailState (t : Ty) (cur : Val) : Val :=
  match t, cur with
  | .ptr s, .ptr none => .ptr (some s.zero)
  | _, c => c

/-! ### convertToString -/

/-- The base used for *formatting*: `strconv.FormatInt` panics outside 2..36, and base 0 means
    "detect from the prefix" when parsing; after the D19 fix such bases format in decimal. -/
def fmtBase (b : Int) : Nat := if 2 ≤ b && b ≤ 36 then b.toNat else 10

def svalToString (E : Env) (tag : List (Bytes × Bytes)) : Sc → SVal → Except Bytes Bytes
  | .custom 0, .str b => .ok (b.map lowerByte)
  | .dur, .int v => .ok (E.fmtDuration v)
  | _, .str b => .ok b
  | _, .bool b => .ok (if b then B "true" else B "false")
  | _, .int v => do
    let base ← getBase E tag
    .ok (intToBase (fmtBase base) v)
  | _, .uint v => do
    let base ← getBase E tag
    .ok (natToBase (fmtBase base) v)
  | .float bits, .float v => .ok (E.fmtFloat v bits)
  | _, .float v => .ok (E.fmtFloat v 64)

/-- bytewise `≤` on strings (Go's `<=`), for sorted map keys -/
def bytesLe : Bytes → Bytes → Bool
  | [], _ => true
  | _ :: _, [] => false
  | a :: s, b :: t => if a < b then true else if a > b then false else bytesLe s t

def scOfTy : Ty → Sc
  | .sc s | .slice s | .ptr s => s
  | .map _ v => v
  | .func (some s) _ => s
  | .func none _ => .bool

/-- `convertToString(val, options)`; map keys in sorted order (after the D7 fix). -/
def convertToString (E : Env) (tag : List (Bytes × Bytes)) (t : Ty) (v : Val) : Except Bytes Bytes :=
  match t, v with
  | .sc s, .sc x => svalToString E tag s x
  | .slice s, .slice _ xs =>
    if xs = [] then .ok [] else do
      let items ← xs.mapM (svalToString E tag s)
      .ok (B "[" ++ join (B ", ") items ++ B "]")
  | .ptr s, .ptr (some x) => svalToString E tag s x
  | .ptr _, .ptr none => .ok []
  | .map k vt, .map _ kvs => do
    let items ← kvs.mapM (fun kv => do
      let ks ← svalToString E tag k kv.1
      let vs ← svalToString E tag vt kv.2
      pure (ks, vs))
    let sorted := items.mergeSort (fun a b => bytesLe a.1 b.1)
    .ok (B "{" ++ join (B ", ") (sorted.map fun kv => kv.1 ++ B ":" ++ kv.2) ++ B "}")
  | _, _ => .ok []

end GoFlags
