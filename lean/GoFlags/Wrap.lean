/-
  help.go `wrapText` (after the D4 fix: the width is counted in characters and a line is
  only ever cut at a character boundary).
-/
import GoFlags.Bytes

namespace GoFlags
open Bytes

/-- Byte offsets just before and just after the `n`-th character (1-based) of `s`,
    i.e. `(start, end)` of the Go loop `for n := 0; n < l; n++ { start, end = end, end+w }`. -/
def charSpan : Nat → Bytes → Nat → Nat → Nat × Nat
  | 0, _, st, en => (st, en)
  | n + 1, s, _, en =>
    let w := (decodeRune s).2
    charSpan n (s.drop w) en (en + w)

/-- `strings.LastIndex(s, " ")`. -/
def lastIndexSpace (s : Bytes) : Option Nat :=
  let rec go : Bytes → Nat → Option Nat → Option Nat
    | [], _, acc => acc
    | c :: t, i, acc => go t (i + 1) (if c = 0x20 then some i else acc)
  go s 0 none

/-- A produced piece of one input line: its text and whether it ends in an inserted
    hyphen + line break (a hard break inside a word). -/
structure Seg where
  text : Bytes
  hard : Bool
  deriving Repr, DecidableEq

/-- The `for RuneCount(line) > l` loop on one trimmed line. -/
def wrapSegs (l : Nat) : Nat → Bytes → List Seg
  | 0, _ => []
  | fuel + 1, line =>
    if runeCount line > l then
      let (st, en) := charSpan l line 0 0
      match lastIndexSpace (line.take en) with
      | some pos => ⟨trimSpace (line.take pos), false⟩ :: wrapSegs l fuel (trimSpace (line.drop pos))
      | none => ⟨trimSpace (line.take st), true⟩ :: wrapSegs l fuel (trimSpace (line.drop st))
    else if line = [] then [] else [⟨line, false⟩]

def Seg.render (s : Seg) : Bytes := if s.hard then s.text ++ [0x2D, 0x0A] else s.text

/-- `retline` for one input line. -/
def wrapLine (l : Nat) (pfx : Bytes) (line : Bytes) : Bytes :=
  let t := trimSpace line
  join (0x0A :: pfx) ((wrapSegs l (t.length + 1) t).map Seg.render)

/-- The outer loop over the lines of `s`. -/
def wrapJoin (pfx : Bytes) : List Bytes → Bytes → Bytes
  | [], ret => ret
  | rl :: rest, ret =>
    let ret := if ret ≠ [] then (ret ++ [0x0A] ++ (if rl ≠ [] then pfx else [])) else ret
    wrapJoin pfx rest (ret ++ rl)

/-- `wrapText(s, l, prefix)`. -/
def wrapText (s : Bytes) (l : Int) (pfx : Bytes) : Bytes :=
  let l : Nat := if l < 10 then 10 else l.toNat
  wrapJoin pfx ((splitOn 0x0A s).map (wrapLine l pfx)) []

end GoFlags
