/-
  Whole-parser cases: a build script (parser, structs, AddGroup/AddCommand, attribute
  assignments) followed by operations; the driver prints one canonical observation block per
  operation.  Not part of the model.
-/
import GoFlags.Driver.Proto
import GoFlags.Parse
import GoFlags.Help
import GoFlags.Ini
import GoFlags.Man
import GoFlags.Completion

namespace GoFlags.Driver
open GoFlags Bytes

/-! ### parsing type codes and values -/

def parseSc (s : String) : Option Sc :=
  match s with
  | "str" => some .str | "bool" => some .bool
  | "i8" => some (.int 8 false) | "i16" => some (.int 16 false) | "i32" => some (.int 32 false)
  | "i64" => some (.int 64 false) | "int" => some (.int 64 true)
  | "u8" => some (.uint 8 false) | "u16" => some (.uint 16 false) | "u32" => some (.uint 32 false)
  | "u64" => some (.uint 64 false) | "uint" => some (.uint 64 true)
  | "f32" => some (.float 32) | "f64" => some (.float 64) | "dur" => some .dur
  | "c0" => some (.custom 0) | "c1" => some (.custom 1) | "c2" => some (.custom 2) | "c3" => some (.custom 3)
  | _ => none

def parseTy (s : String) : Option Ty :=
  match s.toList with
  | 'L' :: r => (parseSc (String.ofList r)).map .slice
  | 'P' :: r => (parseSc (String.ofList r)).map .ptr
  | 'M' :: r =>
    match (String.ofList r).splitOn "," with
    | [k, v] => do some (.map (← parseSc k) (← parseSc v))
    | _ => none
  | ['F', '-'] => some (.func none false)
  | ['F', 'e'] => some (.func none true)
  | 'F' :: r =>
    let body := String.ofList r
    if body.endsWith "!" then (parseSc (body.dropEnd 1).toString).map fun s => .func (some s) true
    else (parseSc body).map fun s => .func (some s) false
  | _ => (parseSc s).map .sc

def parseSVal (s : String) : Option SVal :=
  match s.splitOn ":" with
  | ["s", h] => (unhexArg h).map .str
  | ["b", v] => some (.bool (v == "1"))
  | ["i", v] => v.toInt?.map .int
  | ["u", v] => v.toNat?.map .uint
  | ["f", v] => v.toNat?.map .float
  | _ => none

def parseVal (s : String) : Option Val :=
  if s == "F" then some .func
  else if s == "Lnil" then some (.slice true [])
  else if s == "Pnil" then some (.ptr none)
  else if s == "Mnil" then some (.map true [])
  else match s.toList with
    | 'v' :: r => (parseSVal (String.ofList r)).map .sc
    | 'P' :: r => (parseSVal (String.ofList r)).map fun v => .ptr (some v)
    | 'L' :: '[' :: r =>
      let body := String.ofList r
      if body == "" then some (.slice false [])
      else (body.splitOn ",").mapM parseSVal |>.map (.slice false)
    | 'M' :: '[' :: r =>
      let body := String.ofList r
      if body == "" then some (.map false [])
      else (body.splitOn ",").mapM (fun (kv : String) =>
        match kv.splitOn "=" with
        | [k, v] => do some (← parseSVal k, ← parseSVal v)
        | _ => none) |>.map (.map false)
    | _ => none

def showSVal : SVal → String
  | .str b => "s:" ++ hexArg b
  | .bool b => "b:" ++ b01' b
  | .int v => s!"i:{v}"
  | .uint v => s!"u:{v}"
  | .float v => s!"f:{v}"
where b01' (b : Bool) : String := if b then "1" else "0"

def showVal : Val → String
  | .func => "F"
  | .sc v => "v" ++ showSVal v
  | .slice true _ => "Lnil"
  | .slice false xs => "L[" ++ ",".intercalate (xs.map showSVal)
  | .ptr none => "Pnil"
  | .ptr (some v) => "P" ++ showSVal v
  | .map true _ => "Mnil"
  | .map false kvs =>
    let items := (kvs.map fun kv => showSVal kv.1 ++ "=" ++ showSVal kv.2)
    "M[" ++ ",".intercalate (items.toArray.qsort (· < ·)).toList

def showErr (mask : Bool) : Option GoErr → String
  | none => "ok"
  | some (.flags t m) => s!"flags {t.code} " ++ (if mask then "MASKED" else hexArg m)
  | some (.ini f l m) => s!"ini {hexArg f} {l} " ++ hexArg m
  | some (.foreign m) => "foreign " ++ (if mask then "MASKED" else hexArg m)

/-! ### case state -/

structure CaseState where
  structs : Array (List Field) := #[]
  cur : Option (Nat × List Field) := none     -- struct being defined
  P : Parser := {}
  nextUid : Nat := 2
  out : Array String := #[]
  bad : Option String := none
  dead : Bool := false      -- a build operation failed: the rest of the case is skipped

def CaseState.emit (st : CaseState) (s : String) : CaseState := { st with out := st.out.push s }

def CaseState.cmdIdx (st : CaseState) (uid : Nat) : Option Nat :=
  st.P.cmds.findIdx? (·.uid = uid)

/-- give creation-order uids to the commands that have none yet (pre-order) -/
def CaseState.numberCmds (st : CaseState) : CaseState :=
  let (cmds, n) := st.P.cmds.foldl (fun (acc : List Cmd × Nat) c =>
    if c.uid = 0 then (acc.1 ++ [{ c with uid := acc.2 }], acc.2 + 1) else (acc.1 ++ [c], acc.2)) ([], st.nextUid)
  { st with P := { st.P with cmds := cmds }, nextUid := n }

def parseFTy (st : CaseState) (s : String) : Option FTy :=
  match s.splitOn ":" with
  | ["v", t] => (parseTy t).map .val
  | ["s", id] => do let i ← id.toNat?; some (.struct (← st.structs[i]?))
  | ["p", nil, id] => do let i ← id.toNat?; some (.ptrStruct (nil == "1") (← st.structs[i]?))
  | _ => none

def hexListArgs (ws : List String) : Option (List Bytes) :=
  match ws with
  | n :: rest => do
    let k ← n.toNat?
    if rest.length = k then rest.mapM unhexArg else none
  | [] => none

def showORef (P : Parser) (r : ORef) : String := s!"{(P.cmd r.c).uid}.{r.g}.{r.o}"

def showEvent (P : Parser) : Event → String
  | .cb r a => s!"LOG cb {showORef P r} " ++ (match a with | some v => showSVal v | none => "-")
  | .exec ci args => s!"LOG exec {(P.cmd ci).uid} " ++ hexList args
  | .cmdHandler ci args => "LOG cmdhandler " ++ (match ci with | some c => toString (P.cmd c).uid | none => "nil") ++ " " ++ hexList args
  | .unknown n a args => "LOG unknown " ++ hexArg n ++ " " ++ (match a with | some v => hexArg v | none => "-") ++ " " ++ hexList args
  | .out se t => (if se then "STDERR " else "STDOUT ") ++ hexArg t

/-- option values, flags, positional values and the active chain -/
def dumpState (P : Parser) : List String :=
  let os := P.allORefs.map fun r =>
    let o := P.opt r
    s!"O {showORef P r} {showVal o.val} {if o.isSet then 1 else 0} {if o.isSetDefault then 1 else 0}"
  let as := (P.cmds.zipIdx).flatMap fun (c, _) => (c.args.zipIdx).map fun (a, ai) => s!"A {c.uid}.{ai} {showVal a.val}"
  let act := "ACT " ++ " ".intercalate (P.activeChain.map fun i => toString (P.cmd i).uid)
  os ++ as ++ [act]

/-- the public model (C19): every exported attribute -/
def dumpModel (P : Parser) : List String :=
  (P.cmds.zipIdx).flatMap fun (c, ci) =>
    let parent := match P.parent ci with | some p => toString (P.cmd p).uid | none => "-"
    [s!"CMD {c.uid} parent={parent} {hexArg c.name} {hexArg c.shortDesc} {hexArg c.longDesc} hidden={c.hidden} subopt={c.subOpt} argsreq={c.argsRequired} aliases={hexList c.aliases}"] ++
    ((c.groups.zipIdx).flatMap fun (g, gi) =>
      [s!"GRP {c.uid}.{gi} {hexArg g.shortDesc} {hexArg g.longDesc} ns={hexArg g.ns} envns={hexArg g.envNs} hidden={g.hidden} size={g.size}"] ++
      ((g.opts.zipIdx).map fun (o, oi) =>
        let r : ORef := ⟨ci, gi, oi⟩
        s!"OPT {c.uid}.{gi}.{oi} field={hexArg o.field} short={o.short} long={hexArg o.long} longns={hexArg (P.longNS r)} desc={hexArg o.desc} default={hexList o.dflt} env={hexArg o.envKey} envdelim={hexArg o.envDelim} envns={hexArg (P.envKeyNS r)} optional={o.optionalArg} optval={hexList o.optionalValue} required={o.required} valuename={hexArg o.valueName} mask={hexArg o.defaultMask} choices={hexList o.choices} hidden={o.hidden} string={hexArg (P.optString r)}")) ++
    ((c.args.zipIdx).map fun (a, ai) =>
      s!"ARG {c.uid}.{ai} {hexArg a.name} {hexArg a.desc} {a.required} {a.requiredMax}")

def parsePOpts (bits : Nat) : POpts :=
  { helpFlag := bits &&& 2 ≠ 0, passDoubleDash := bits &&& 4 ≠ 0, ignoreUnknown := bits &&& 8 ≠ 0,
    printErrors := bits &&& 16 ≠ 0, passAfterNonOption := bits &&& 32 ≠ 0 }

/-- process one line of a case -/
def caseLine (t : Tables) (st : CaseState) (ws : List String) : CaseState :=
  if st.bad.isSome || st.dead then st else
  let E := t.toEnv
  let fail (m : String) : CaseState := { st with bad := some m }
  match st.cur, ws with
  | some (id, fs), ["f", name, exported, tag, ty, init, cb] =>
    match unhexArg name, unhexArg tag, parseFTy st ty, parseVal init, cb.toNat? with
    | some n, some tg, some fty, some iv, some c =>
      { st with cur := some (id, fs ++ [.mk n (exported == "1") tg fty iv c]) }
    | _, _, _, _, _ => fail ("bad field: " ++ " ".intercalate ws)
  | some (id, fs), ["end"] =>
    if id = st.structs.size then { st with structs := st.structs.push fs, cur := none }
    else fail "struct ids must be consecutive"
  | some _, _ => fail ("unexpected inside struct: " ++ " ".intercalate ws)
  | none, ["struct", id] =>
    match id.toNat? with
    | some i => { st with cur := some (i, []) }
    | none => fail "bad struct id"
  | none, "parser" :: name :: bits :: nsd :: ensd :: handler :: rest =>
    match unhexArg name, bits.toNat?, unhexArg nsd, unhexArg ensd with
    | some n, some b, some d1, some d2 =>
      let (h, rest) : Option Handler × List String := match handler, rest with
        | "none", r => (some .none, r)
        | "identity", r => (some .identity, r)
        | "dropnext", r => (some .dropNext, r)
        | "fail", r => (some .fail, r)
        | "swallow", r => (some .swallow, r)
        | "prepend", tok :: r => ((unhexArg tok).map .prepend, r)
        | _, r => (none, r)
      match h, rest with
      | some h, [ch, usage] =>
        match unhexArg usage with
        | some u =>
          { st with P := { cmds := [{ name := n, uid := 1 }], usage := u, opts := parsePOpts b, nsDelim := d1,
                           envNsDelim := d2, handler := h, cmdHandler := ch == "1" } }
        | none => fail "bad usage"
      | _, _ => fail "bad parser line"
    | _, _, _, _ => fail "bad parser line"
  | none, ["addgroup", uid, sd, ld, sid] =>
    match uid.toNat?.bind st.cmdIdx, unhexArg sd, unhexArg ld, sid.toNat?.bind (st.structs[·]?) with
    | some ci, some s, some l, some fs =>
      match st.P.addGroup E ci s l fs with
      | .ok P => ({ st with P := P }.numberCmds).emit "R ok"
      | .error e => { st.emit ("R " ++ showErr false (some e)) with dead := true }
    | _, _, _, _ => fail ("bad addgroup: " ++ " ".intercalate ws)
  | none, ["addcommand", uid, name, sd, ld, sid, commander, usage] =>
    match uid.toNat?.bind st.cmdIdx, unhexArg name, unhexArg sd, unhexArg ld, sid.toNat?.bind (st.structs[·]?), commander.toNat? with
    | some ci, some n, some s, some l, some fs, some k =>
      let u := if usage == "-" then none else unhexArg usage
      match st.P.addCommand E ci n s l fs k u with
      | .ok P => ({ st with P := P }.numberCmds).emit "R ok"
      | .error e => { st.emit ("R " ++ showErr false (some e)) with dead := true }
    | _, _, _, _, _, _ => fail ("bad addcommand: " ++ " ".intercalate ws)
  | none, ["internalerror"] =>
    -- NewParser(data): a failed AddGroup is remembered and returned by every ParseArgs
    st
  | none, "setcmd" :: uid :: attr :: vals =>
    match uid.toNat?.bind st.cmdIdx with
    | none => fail "bad setcmd uid"
    | some ci =>
      let upd (f : Cmd → Cmd) : CaseState := { st with P := st.P.modCmd ci f }
      match attr, vals with
      | "hidden", [v] => upd fun c => c.setHidden (v == "1")
      | "subopt", [v] => upd fun c => { c with subOpt := v == "1" }
      | "shortdesc", [v] => match unhexArg v with
        | some b => upd fun c => { c with groups := listModify c.groups 0 fun g => { g with shortDesc := b } }
        | none => fail "bad shortdesc"
      | "longdesc", [v] => match unhexArg v with
        | some b => upd fun c => { c with groups := listModify c.groups 0 fun g => { g with longDesc := b } }
        | none => fail "bad longdesc"
      | "aliases", vs => match hexListArgs vs with
        | some as => upd fun c => { c with aliases := as }
        | none => fail "bad aliases"
      | "name", [v] => match unhexArg v with
        | some b => upd fun c => { c with name := b }
        | none => fail "bad name"
      | "ns", [v] => match unhexArg v with
        | some b => upd fun c => { c with groups := listModify c.groups 0 fun g => { g with ns := b } }
        | none => fail "bad ns"
      | _, _ => fail ("bad setcmd: " ++ " ".intercalate ws)
  | none, "setopt" :: uid :: gi :: oi :: attr :: vals =>
    -- the program assigns a public field of an option between operations
    match uid.toNat?.bind st.cmdIdx, gi.toNat?, oi.toNat?, vals.mapM unhexArg with
    | some ci, some g, some o, some vs =>
      let upd (f : Opt → Opt) : CaseState := { st with P := st.P.modOpt ⟨ci, g, o⟩ f }
      match attr with
      | "long" => upd fun x => { x with long := vs.headD [] }
      | "short" => upd fun x => { x with short := (decodeRune (vs.headD [])).1 * (if vs.headD [] = [] then 0 else 1) }
      | "choices" => upd fun x => { x with choices := vs }
      | "mask" => upd fun x => { x with defaultMask := vs.headD [] }
      | "default" => upd fun x => { x with dflt := vs }
      | "desc" => upd fun x => { x with desc := vs.headD [] }
      | "required" => upd fun x => { x with required := vs.headD [] == [0x31] }
      | "hidden" => upd fun x => { x with hidden := vs.headD [] == [0x31] }
      | _ => fail "bad setopt attr"
    | _, _, _, _ => fail "bad setopt"
  | none, ["setgrp", uid, gi, attr, v] =>
    match uid.toNat?.bind st.cmdIdx, gi.toNat? with
    | some ci, some g =>
      let upd (f : Grp → Grp) : CaseState := { st with P := st.P.modCmd ci fun c => { c with groups := listModify c.groups g f } }
      match attr, unhexArg v with
      | "ns", some b => upd fun g => { g with ns := b }
      | "envns", some b => upd fun g => { g with envNs := b }
      | "shortdesc", some b => upd fun g => { g with shortDesc := b }
      | "hidden", _ => upd fun g => { g with hidden := v == "1" }
      | _, _ => fail "bad setgrp"
    | _, _ => fail "bad setgrp"
  | none, ["seterr", kind, code, msg] =>
    -- NewParser(data, …) remembers the AddGroup error
    match unhexArg msg, code.toNat? with
    | some m, some _ =>
      let e : GoErr := if kind == "flags" then
          .flags (match code.toNat?.getD 0 with
            | 8 => .shortNameTooLong | 9 => .duplicatedFlag | 10 => .tag | 14 => .invalidTag | _ => .unknown) m
        else .foreign m
      { st with P := { st.P with internalError := some e } }
    | _, _ => fail "bad seterr"
  | none, "parse" :: cols :: args =>
    match cols.toInt?, hexListArgs args with
    | some cols, some argv =>
      let help : HelpFn := fun P => (writeHelp P cols).getD (B "<<PANIC in WriteHelp>>")
      let res := parseArgs E help st.P argv
      let mask := argv.any (·.contains 0x25)
      let st := { st with P := res.P }
      let showEv (ev : Event) : String :=
        match ev with
        | .out se _ => if mask then (if se then "STDERR MASKED" else "STDOUT MASKED") else showEvent res.P ev
        | _ => showEvent res.P ev
      let lines := ["RET " ++ showErr mask res.err ++ " " ++ hexList res.ret] ++ dumpState res.P ++
        res.log.map showEv
      lines.foldl CaseState.emit st
    | _, _ => fail ("bad parse: " ++ " ".intercalate ws)
  | none, ["iniparse", cols, asd, text] =>
    match cols.toInt?, unhexArg text with
    | some cols, some t =>
      let help : HelpFn := fun P => (writeHelp P cols).getD (B "<<PANIC in WriteHelp>>")
      let res := iniParse E help (asd == "1") st.P t
      let st := { st with P := res.P }
      (["INI " ++ showErr false res.err] ++ dumpState res.P ++ res.log.map (showEvent res.P)).foldl CaseState.emit st
    | _, _ => fail "bad iniparse"
  | none, ["iniwrite", bits] =>
    match bits.toNat? with
    | some b =>
      let io : IniOpts := { includeDefaults := b &&& 2 ≠ 0, commentDefaults := b &&& 4 ≠ 0, includeComments := b &&& 8 ≠ 0 }
      st.emit ("INIW " ++ hexArg (writeIni E st.P io))
    | none => fail "bad iniwrite"
  | none, ["man", date] =>
    match unhexArg date with
    | some d => st.emit ("MAN " ++ hexArg (writeMan E st.P d))
    | none => fail "bad man"
  | none, "complete" :: args =>
    match hexListArgs args with
    | some argv =>
      -- completion mode runs the preamble of ParseArgs (help groups) and nothing else: the active chain
      -- of an earlier call stays as it is
      let P := preamble E st.P
      let items := complete P argv
      { st with P := P }.emit ("COMP " ++ hexList (items.flatMap fun (it : Bytes × Bytes) => [it.1, it.2]))
    | none => fail "bad complete"
  | none, ["model"] => (dumpModel st.P).foldl CaseState.emit st
  | none, ["help", cols] =>
    match cols.toInt? with
    | some c =>
      match writeHelp st.P c with
      | some t => st.emit ("HELP " ++ hexArg t)
      | none => st.emit "HELP PANIC"
    | none => fail "bad help"
  | none, _ => fail ("unknown case line: " ++ " ".intercalate ws)

end GoFlags.Driver
