/-
  Function-level operations of the driver: one request line → one response line.
-/
import GoFlags.Driver.Proto
import GoFlags.Strconv
import GoFlags.Optstyle
import GoFlags.Closest
import GoFlags.Wrap
import GoFlags.Multitag

namespace GoFlags.Driver
open GoFlags Bytes

def b01 (b : Bool) : String := if b then "1" else "0"

/-- bytewise lexicographic `≤` (Go's string `<=`). -/
def bytesLe : Bytes → Bytes → Bool
  | [], _ => true
  | _ :: _, [] => false
  | a :: s, b :: t => if a < b then true else if a > b then false else bytesLe s t

/-- canonical form of a scanned tag: pairs sorted by key, order within a key kept. -/
def canonPairs (kvs : List (Bytes × Bytes)) : List (Bytes × Bytes) :=
  kvs.mergeSort (fun a b => bytesLe a.1 b.1)

def fnOp (E : Env) (ws : List String) : Option String :=
  match ws with
  | ["lev", s, t] => do some (toString (levenshtein (← unhexArg s) (← unhexArg t)))
  | "closest" :: cmd :: cs => do
      let r := closestChoice (← unhexArg cmd) (← cs.mapM unhexArg)
      some s!"{hexArg r.1} {r.2}"
  | ["wrap", s, l, p] => do some (hexArg (wrapText (← unhexArg s) (← l.toInt?) (← unhexArg p)))
  | ["scantag", t] => do
      let tag ← unhexArg t
      match scanTag tag with
      | .ok kvs => some ("ok " ++ hexList ((canonPairs kvs).flatMap fun kv => [kv.1, kv.2]))
      | .error e => some ("err " ++ hexArg (e.message tag))
  | ["isopt", a] => do
      let a ← unhexArg a
      some s!"{b01 (argumentIsOption a)} {b01 (argumentStartsOption a)}"
  | ["strip", a] => do
      let (p, n, l) := stripOptionPrefix (← unhexArg a)
      some s!"{hexArg p} {hexArg n} {b01 l}"
  | ["split", o, l] => do
      let (n, sp, a) := splitOption (← unhexArg o) (l == "1")
      some s!"{hexArg n} {hexArg sp} {match a with | some v => hexArg v | none => "-"}"
  | ["unquote", s] => do
      match unquote (← unhexArg s) with
      | some v => some ("ok " ++ hexArg v)
      | none => some "err"
  | ["quote", s] => do some (hexArg (quote E (← unhexArg s)))
  | ["isprintstr", s] => do some (b01 (isPrintStr E (← unhexArg s)))
  | ["parseint", s, base, bits] => do
      let s ← unhexArg s
      match parseInt s (← base.toInt?) (← bits.toNat?) with
      | .ok v => some s!"ok {v}"
      | .error e => some ("err " ++ hexArg (numErrorText E (B "ParseInt") s e))
  | ["parseuint", s, base, bits] => do
      let s ← unhexArg s
      match parseUint s (← base.toInt?) (← bits.toNat?) with
      | .ok v => some s!"ok {v}"
      | .error e => some ("err " ++ hexArg (numErrorText E (B "ParseUint") s e))
  | ["parsebool", s] => do
      match parseBool (← unhexArg s) with
      | some b => some ("ok " ++ b01 b)
      | none => some "err"
  | ["fmtint", v, base] => do some (hexArg (intToBase (← base.toNat?) (← v.toInt?)))
  | ["trimspace", s] => do some (hexArg (trimSpace (← unhexArg s)))
  | ["runes", s] => do some (" ".intercalate ((runes (← unhexArg s)).map toString))
  | ["validutf8", s] => do some (b01 (validUtf8 (← unhexArg s)))
  | ["encoderune", r] => do some (hexArg (encodeRune (← r.toNat?)))
  | _ => none

end GoFlags.Driver
