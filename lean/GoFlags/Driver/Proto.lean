/-
  Line-protocol helpers for the driver (hex in, hex out) and the table-backed oracle.
  Not part of the model; nothing here is referenced by a theorem.
-/
import GoFlags.Env
import Std.Data.HashMap

namespace GoFlags.Driver
open GoFlags

def hexVal (c : Char) : Option Nat :=
  if '0' ≤ c ∧ c ≤ '9' then some (c.toNat - '0'.toNat)
  else if 'a' ≤ c ∧ c ≤ 'f' then some (c.toNat - 'a'.toNat + 10)
  else none

/-- `x<hex>` → bytes. -/
def unhexArg (s : String) : Option Bytes :=
  match s.toList with
  | 'x' :: cs =>
    let rec go : List Char → List Nat → Option (List Nat)
      | [], acc => some acc.reverse
      | [_], _ => none
      | a :: b :: r, acc =>
        match hexVal a, hexVal b with
        | some x, some y => go r ((x * 16 + y) :: acc)
        | _, _ => none
    go cs []
  | _ => none

def hexChar (n : Nat) : Char := if n < 10 then Char.ofNat (48 + n) else Char.ofNat (87 + n)

def hexArg (b : Bytes) : String :=
  String.ofList ('x' :: b.flatMap (fun v => [hexChar ((v / 16) % 16), hexChar (v % 16)]))

def hexList (bs : List Bytes) : String :=
  toString bs.length ++ String.join (bs.map (fun b => " " ++ hexArg b))

/-- Oracle tables filled by `oracle …` lines. Keys are the query's canonical text. -/
structure Tables where
  isPrint : Std.HashMap Nat Bool := {}
  toLower : Std.HashMap Nat Nat := {}
  parseFloat : Std.HashMap String (PRes Nat) := {}
  fmtFloat : Std.HashMap String Bytes := {}
  parseDur : Std.HashMap String (PRes Int) := {}
  fmtDur : Std.HashMap Int Bytes := {}
  env : Std.HashMap String Bytes := {}

/-- A miss is reported on stderr (`dbgTrace` is the one sanctioned side channel of pure code)
    and answered with a default; the harness then supplies the entry and re-sends the case. -/
@[noinline] def miss {α : Type} (q : String) (dflt : α) : α :=
  dbgTrace ("MISS " ++ q) fun _ => dflt

def Tables.toEnv (t : Tables) : Env where
  isPrintHi r := match t.isPrint[r]? with
    | some b => b
    | none => miss s!"isprint {r}" true
  toLowerHi r := match t.toLower[r]? with
    | some v => v
    | none => miss s!"tolower {r}" r
  parseFloat s bits := match t.parseFloat[s!"{bits} {hexArg s}"]? with
    | some v => v
    | none => miss s!"parsefloat {bits} {hexArg s}" (.err [])
  fmtFloat v bits := match t.fmtFloat[s!"{bits} {v}"]? with
    | some b => b
    | none => miss s!"fmtfloat {bits} {v}" []
  parseDuration s := match t.parseDur[hexArg s]? with
    | some v => v
    | none => miss s!"parsedur {hexArg s}" (.err [])
  fmtDuration v := match t.fmtDur[v]? with
    | some b => b
    | none => miss s!"fmtdur {v}" []
  getenv k := t.env[hexArg k]?

/-- `oracle <fn> <args…>` → updated tables. -/
def Tables.addOracle (t : Tables) (ws : List String) : Option Tables :=
  match ws with
  | ["isprint", r, b] => do some { t with isPrint := t.isPrint.insert (← r.toNat?) (b == "1") }
  | ["tolower", r, v] => do some { t with toLower := t.toLower.insert (← r.toNat?) (← v.toNat?) }
  | ["parsefloat", bits, s, "ok", v] => do
      some { t with parseFloat := t.parseFloat.insert s!"{bits} {s}" (.ok (← v.toNat?)) }
  | ["parsefloat", bits, s, "err", m] => do
      some { t with parseFloat := t.parseFloat.insert s!"{bits} {s}" (.err (← unhexArg m)) }
  | ["fmtfloat", bits, v, out] => do
      some { t with fmtFloat := t.fmtFloat.insert s!"{bits} {v}" (← unhexArg out) }
  | ["parsedur", s, "ok", v] => do some { t with parseDur := t.parseDur.insert s (.ok (← v.toInt?)) }
  | ["parsedur", s, "err", m] => do some { t with parseDur := t.parseDur.insert s (.err (← unhexArg m)) }
  | ["fmtdur", v, out] => do some { t with fmtDur := t.fmtDur.insert (← v.toInt?) (← unhexArg out) }
  | ["env", k, v] => do let _ ← unhexArg k; some { t with env := t.env.insert k (← unhexArg v) }
  | ["unsetenv", k] => some { t with env := t.env.erase k }
  | _ => none

end GoFlags.Driver
