/-
  completion.go: `completion.complete` — the private walk over the already-typed words and
  the candidates for the last, partial word.
-/
import GoFlags.Parse

namespace GoFlags
open Bytes

structure CS where
  P : Parser
  args : List Bytes
  positional : List (Nat × Nat)
  cmd : Nat
  /-- a word has been passed through to the remaining arguments (`len(s.retargs) != 0`) -/
  restSeen : Bool := false

def CS.fill (s : CS) (ci : Nat) : CS :=
  { s with positional := (List.range (s.P.cmd ci).args.length).map fun i => (ci, i), cmd := ci }

/-- `skipPositional(s, n)` -/
def CS.skipPositional (s : CS) : Nat → CS
  | 0 => s
  | n + 1 =>
    match s.positional with
    | [] => s
    | p :: ps => if (s.P.argAt p).isRemaining then s else CS.skipPositional { s with positional := ps } n

/-- `passThrough(s, arg)`: a word the parser does not interpret goes to the next positional
    argument, or else to the remaining arguments -/
def CS.passThrough (s : CS) : CS :=
  match s.positional with
  | p :: ps => if (s.P.argAt p).isRemaining then s else { s with positional := ps }
  | [] => { s with restSeen := true }

/-- the short-option walk of the completion loop: returns the option found last (or none) and
    whether it may still take the next word as its argument -/
def compShortWalk (s : CS) (total : Nat) : Nat → Bytes → Nat → Option ORef → Option ORef × Bool
  | 0, _, _, o => (o, true)
  | _ + 1, [], _, o => (o, true)
  | fuel + 1, b :: rest, i, _ =>
    let (c, w) := decodeRune (b :: rest)
    match s.P.lookupShort s.cmd c with
    | none => (none, true)
    | some r =>
      if i = 0 && (s.P.opt r).ty.canArgument && total ≠ (encodeRune c).length then (some r, false)
      else compShortWalk s total fuel ((b :: rest).drop w) (i + w) (some r)

/-- the `for len(s.args) > 1` loop; returns the state, the option whose value is being typed, and
    whether the rest of the line is passed through by the parser (`terminated`) -/
def compWalk : Nat → CS → Option ORef → CS × Option ORef × Bool
  | 0, s, opt => (s, opt, false)
  | fuel + 1, s, opt =>
    match s.args with
    | arg :: rest@(_ :: _) =>
      let s := { s with args := rest }
      if s.P.opts.passDoubleDash && arg = B "--" then
        (s.skipPositional (rest.length - 1), none, true)
      else if argumentIsOption arg then
        let (_, optname, islong) := stripOptionPrefix arg
        let (optname, _, argument) := splitOption optname islong
        let (o, canarg) : Option ORef × Bool :=
          if islong then (s.P.lookupLong s.cmd optname, true)
          else compShortWalk s optname.length (optname.length + 1) optname 0 none
        match o with
        | none =>
          if s.P.opts.ignoreUnknown then compWalk fuel s.passThrough opt
          else if argument.isSome then compWalk fuel s opt
          else if s.P.opts.passAfterNonOption then (s.skipPositional (rest.length - 1), none, false)
          else compWalk fuel s opt
        | some r =>
          let op := s.P.opt r
          if argument.isNone && op.ty.canArgument && !op.optionalArg && canarg then
            match rest with
            | _ :: rest'@(_ :: _) => compWalk fuel { s with args := rest' } opt
            | _ => compWalk fuel s (some r)
          else compWalk fuel s opt
      else if s.P.opts.passAfterNonOption && (s.P.lookupCmd s.cmd arg).isNone then
        (s.skipPositional rest.length, none, true)
      else
        let s :=
          match s.P.lookupCmd s.cmd arg with
          | some sub => if s.positional.isEmpty && !s.restSeen then s.fill sub else s.passThrough
          | none => s.passThrough
        compWalk fuel s none
    | _ => (s, opt, false)

/-- completions offered by the predeclared Completer types (harness/types.go); the typed word is
    matched without regard to ASCII letter case -/
def completerItems (t : Ty) (m : Bytes) : List Bytes :=
  let sc := match t with | .sc s | .slice s | .ptr s => some s | _ => none
  match sc with
  | some (.custom 2) => [B "red", B "green", B "blue", B "grey"].filter fun n => hasPrefix n (m.map lowerByte)
  | _ => []

/-- `completeValue(value, prefix, match)` -/
def completeValue (t : Ty) (pfx m : Bytes) : List (Bytes × Bytes) :=
  (completerItems t m).map fun it => (pfx ++ it, [])

def dedup (l : List Bytes) : List Bytes := l.foldl (fun acc x => if acc.contains x then acc else acc ++ [x]) []

/-- `completeOptionNames(s, prefix, match, short)` (before sorting) -/
def completeOptionNames (s : CS) (pfx m : Bytes) (short : Bool) : List (Bytes × Bytes) :=
  if short && m ≠ [] then [(pfx ++ m, [])] else
  let refs := (s.P.chain s.cmd).flatMap fun a => (s.P.cmd a).orefs a
  let longNames := dedup ((refs.filter fun r => (s.P.opt r).long ≠ []).map s.P.longNS)
  let longEntries := longNames.filterMap fun n => (s.P.lookupLong s.cmd n).map fun r => (n, r)
  let longHits := longEntries.filter fun (n, r) => hasPrefix n m && !(s.P.opt r).hidden
  let results := longHits.map fun (n, r) => (B "--" ++ n, (s.P.opt r).desc)
  if !short then results else
  let repeats := longHits.map fun (_, r) => r   -- (after the D28 fix: the OPTIONS offered by a long name)
  let shortNames := (refs.filter fun r => (s.P.opt r).short ≠ 0).map fun r => (s.P.opt r).short
  let shortDistinct := shortNames.foldl (fun acc x => if acc.contains x then acc else acc ++ [x]) []
  let shortEntries := shortDistinct.filterMap fun x => (s.P.lookupShort s.cmd x).map fun r => (x, r)
  results ++ (shortEntries.filter fun (x, r) =>
      !repeats.contains r && hasPrefix (encodeRune x) m && !(s.P.opt r).hidden).map fun (x, r) =>
    (B "-" ++ encodeRune x, (s.P.opt r).desc)

/-- `completeCommands(s, match)` -/
def completeCommands (s : CS) (m : Bytes) : List (Bytes × Bytes) :=
  ((s.P.subs s.cmd).filter fun c => !(s.P.cmd c).hidden && hasPrefix (s.P.cmd c).name m).map fun c =>
    ((s.P.cmd c).name, (s.P.cmd c).shortDesc)

def insertItem (x : Bytes × Bytes) : List (Bytes × Bytes) → List (Bytes × Bytes)
  | [] => [x]
  | y :: ys => if bytesLe x.1 y.1 then x :: y :: ys else y :: insertItem x ys

/-- the candidates for the last word, given where the walk ended: the option whose value is being
    typed, and whether the parser passes the rest of the line through (`terminated`) -/
def completeLast (s : CS) (opt : Option ORef) (terminated : Bool) (lastarg : Bytes) : List (Bytes × Bytes) :=
  match opt with
  | some r => completeValue (s.P.opt r).ty [] lastarg
  | none =>
    if !terminated && argumentStartsOption lastarg then
      let (pfx, optname, islong) := stripOptionPrefix lastarg
      let (optname', split, argument) := splitOption optname islong
      match argument with
      | none =>
        if !islong then
          let (rname, n) := decodeRune optname'
          match s.P.lookupShort s.cmd rname with
          | some r =>
            if (s.P.opt r).ty.canArgument then completeValue (s.P.opt r).ty (pfx ++ encodeRune rname) (optname'.drop n)
            else completeOptionNames s pfx optname' true
          | none => completeOptionNames s pfx optname' true
        else completeOptionNames s pfx optname' false
      | some a =>
        let o := if islong then s.P.lookupLong s.cmd optname'
                 else if encodeRune (decodeRune optname').1 = optname' then s.P.lookupShort s.cmd (decodeRune optname').1 else none
        match o with
        | some r => completeValue (s.P.opt r).ty (pfx ++ optname' ++ split) a
        | none => []
    else
      match s.positional with
      | p :: _ => completeValue (s.P.argAt p).ty [] lastarg
      | [] => if !terminated && !s.restSeen && (s.P.subs s.cmd) ≠ [] then completeCommands s lastarg else []

/-- the walk of `completion.complete` over all words but the last -/
def compStart (P : Parser) (args : List Bytes) : CS :=
  ({ P := P, args := args, positional := [], cmd := 0 } : CS).fill 0

/-- `completion.complete(args)`: items sorted by their text -/
def complete (P : Parser) (args : List Bytes) : List (Bytes × Bytes) :=
  let args := if args = [] then [[]] else args
  let w := compWalk (args.length + 1) (compStart P args) none
  (completeLast w.1 w.2.1 w.2.2 (w.1.args.getLastD [])).foldr insertItem []

end GoFlags
