/-
  man.go: `WriteManPage` (after the D13 fix: a masked default never appears).
-/
import GoFlags.Help

namespace GoFlags
open Bytes

/-- `manQuote` (and `manQuoteLines`, which is the same replacement line by line) -/
def manQuote (s : Bytes) : Bytes := s.flatMap fun b => if b = 0x5C then [0x5C, 0x5C] else [b]

/-- `formatForMan(wr, s, manQuoteLines)`: `` `x' `` becomes bold x -/
def formatForManFuel : Nat → Bytes → Bytes
  | 0, _ => []
  | fuel + 1, s =>
    match indexByte 0x60 s with
    | none => manQuote s
    | some i =>
      let rest := s.drop (i + 1)
      manQuote (s.take i) ++
        match indexByte 0x27 rest with
        | none => manQuote rest
        | some j => B "\\fB" ++ manQuote (rest.take j) ++ B "\\fP" ++ formatForManFuel fuel (rest.drop (j + 1))

def formatForMan (s : Bytes) : Bytes := formatForManFuel (s.length + 1) s

/-- one option entry of the man page, as a function of the option record and its derived names -/
def manOptionText (E : Env) (o : Opt) (longNS envKey : Bytes) : Bytes :=
  let head := B ".TP\n\\fB" ++
    (if o.short ≠ 0 then B "\\fB\\-" ++ encodeRune o.short ++ B "\\fR" else []) ++
    (if o.long ≠ [] then (if o.short ≠ 0 then B ", " else []) ++ B "\\fB\\-\\-" ++ manQuote longNS ++ B "\\fR" else [])
  let valuePart :=
    if o.valueName ≠ [] || o.optionalArg then
      if o.optionalArg then
        B " [\\fI" ++ manQuote o.valueName ++ B "=" ++ manQuote (join (B ", ") (o.optionalValue.map (quote E))) ++ B "\\fR]"
      else B " \\fI" ++ manQuote o.valueName ++ B "\\fR"
    else []
  let dflt :=
    if o.defaultMask ≠ [] then
      (if o.defaultMask ≠ B "-" then B " <default: \\fI" ++ manQuote o.defaultMask ++ B "\\fR>" else [])
    else if o.dflt ≠ [] then B " <default: \\fI" ++ manQuote (join (B ", ") (o.dflt.map (quote E))) ++ B "\\fR>"
    else if envKey ≠ [] then B " <default: \\fI$" ++ manQuote envKey ++ B "\\fR>"
    else []
  head ++ valuePart ++ dflt ++ (if o.required then B " (\\fIrequired\\fR)" else []) ++ B "\\fP\n" ++
    (if o.desc ≠ [] then formatForMan o.desc ++ [0x0A] else [])

def manOption (E : Env) (P : Parser) (r : ORef) : Bytes :=
  manOptionText E (P.opt r) (P.longNS r) (P.envKeyNS r)

/-- `writeManPageOptions(wr, command.Group)` -/
def manOptions (E : Env) (P : Parser) (ci : Nat) : Bytes :=
  let c := P.cmd ci
  let hasSub := c.groups.length > 1 && (c.groups.headD {}).size > 1
  (c.groups.zipIdx).flatMap fun (g, gi) =>
    if !g.showInHelp then [] else
    (if g.shortDesc ≠ [] && hasSub then
        B ".SS " ++ g.shortDesc ++ [0x0A] ++ (if g.longDesc ≠ [] then formatForMan g.longDesc ++ [0x0A] else [])
      else []) ++
    (List.range g.opts.length).flatMap fun oi =>
      if (g.opts.getD oi {}).showInHelp then manOption E P ⟨ci, gi, oi⟩ else []

/-- `writeManPageCommand` / `writeManPageSubcommands` -/
def manCommandsFuel (E : Env) (P : Parser) : Nat → Nat → Bytes → Bytes → Bytes
  | 0, _, _, _ => []
  | fuel + 1, root, name, usagePrefix =>
    (P.sortedVisibleCommands root).flatMap fun ci =>
      let c := P.cmd ci
      let nn := if name ≠ [] then name ++ B " " ++ c.name else c.name
      let cmdstart := B "The " ++ manQuote c.name ++ B " command"
      let long :=
        if c.longDesc ≠ [] then
          [0x0A] ++ (if hasPrefix c.longDesc cmdstart then
              B "The \\fI" ++ manQuote c.name ++ B "\\fP command" ++ formatForMan (c.longDesc.drop cmdstart.length)
            else formatForMan c.longDesc) ++ [0x0A]
        else []
      let pre := usagePrefix ++ B " " ++ c.name
      let usage := match c.usage with
        | some u => u
        | none => if c.hasHelpOptions then B "[" ++ c.name ++ B "-OPTIONS]" else []
      let usageTxt := if usage ≠ [] then B "\n\\fBUsage\\fP: " ++ manQuote pre ++ B " " ++ manQuote usage ++ B "\n.TP\n" else []
      let nextPrefix := if usage ≠ [] then pre ++ B " " ++ usage else pre
      let aliases := if c.aliases ≠ [] then B "\n\\fBAliases\\fP: " ++ manQuote (join (B ", ") c.aliases) ++ B "\n\n" else []
      B ".SS " ++ nn ++ [0x0A] ++ c.shortDesc ++ [0x0A] ++ long ++ usageTxt ++ aliases ++
        manOptions E P ci ++ manCommandsFuel E P fuel ci nn nextPrefix

/-- `Parser.WriteManPage`; `date` is the formatted date (an input: clock or SOURCE_DATE_EPOCH) -/
def writeMan (E : Env) (P : Parser) (date : Bytes) : Bytes :=
  let root := P.cmd 0
  let usage := if P.usage = [] then B "[OPTIONS]" else P.usage
  B ".TH " ++ manQuote root.name ++ B " 1 \"" ++ date ++ B "\"\n.SH NAME\n" ++
    manQuote root.name ++ B " \\- " ++ manQuote root.shortDesc ++ B "\n.SH SYNOPSIS\n" ++
    B "\\fB" ++ manQuote root.name ++ B "\\fP " ++ manQuote usage ++ B "\n.SH DESCRIPTION\n" ++
    formatForMan root.longDesc ++ B "\n.SH OPTIONS\n" ++
    manOptions E P 0 ++
    (if (P.visibleCommands 0) ≠ [] then
      B ".SH COMMANDS\n" ++ manCommandsFuel E P (P.cmds.length + 1) 0 [] (root.name ++ B " " ++ usage)
     else [])

end GoFlags
