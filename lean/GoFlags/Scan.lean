/-
  group.go / command.go: reading a struct declaration into the object model
  (`scanStruct`, `scanSubGroupHandler`, `scanSubcommandHandler`, `checkForDuplicateFlags`,
  `AddGroup`, `AddCommand`, `addHelpGroups`).
-/
import GoFlags.Decl

namespace GoFlags
open Bytes

mutual
  /-- the type of a struct field as far as scanning cares -/
  inductive FTy where
    | val (t : Ty)
    | struct (fs : List Field)
    | ptrStruct (isNil : Bool) (fs : List Field)
  /-- one field of a declaration struct: name, exported?, raw tag text, type, the value the
      program stored beforehand, callback behaviour (func fields) -/
  inductive Field where
    | mk (name : Bytes) (exported : Bool) (tag : Bytes) (ty : FTy) (init : Val) (cb : Nat)
end

instance : Inhabited Field := ⟨.mk [] true [] (.val (.sc .str)) (.sc (.str [])) 0⟩

/-- `isStringFalsy` -/
def isStringFalsy (s : Bytes) : Bool := s = [] || s = B "false" || s = B "no" || s = B "0"

def tagErr (tag : Bytes) (e : TagErr) : GoErr := .flags .tag (e.message tag)

/-- The `Option` built from a tagged field (group.go:256-308), or `none` when the field has
    neither `long`, `short` nor `ini-name`. -/
def mkOption (name : Bytes) (mt : Tag) (t : Ty) (init : Val) (cb : Nat) : Except GoErr (Option Opt) :=
  let longname := tagGet mt (B "long")
  let shortname := tagGet mt (B "short")
  if longname = [] && shortname = [] && tagGet mt (B "ini-name") = [] then .ok none else
  let rc := runeCount shortname
  if rc > 1 then
    .error (.flags .shortNameTooLong (B "short names can only be 1 character long, not `" ++ shortname ++ B "'"))
  else
    let short := if rc = 1 then (decodeRune shortname).1 else 0
    let o : Opt := {
      field := name, short := short, long := longname
      desc := tagGet mt (B "description")
      dflt := tagGetMany mt (B "default")
      envKey := tagGet mt (B "env"), envDelim := tagGet mt (B "env-delim")
      optionalArg := !isStringFalsy (tagGet mt (B "optional"))
      optionalValue := tagGetMany mt (B "optional-value")
      required := !isStringFalsy (tagGet mt (B "required"))
      valueName := tagGet mt (B "value-name"), defaultMask := tagGet mt (B "default-mask")
      choices := tagGetMany mt (B "choice")
      hidden := !isStringFalsy (tagGet mt (B "hidden"))
      ty := t, tag := mt, cb := cb, val := init }
    if t.isBool && (mt.any (·.1 = B "default")) then
      let nm := (if short ≠ 0 then B "-" ++ encodeRune short else []) ++
                (if longname ≠ [] then (if short ≠ 0 then B "/" else []) ++ longname else [])
      .error (.flags .invalidTag (B "boolean flag `" ++ nm ++
        B "' may not have default values, they always default to `false' and can only be turned on"))
    else .ok (some o)

/-- positional `required:"N"` / `"N-M"` parsing (command.go:183-206) -/
def parseArgRequired (E : Env) (sreq : Bytes) : Int × Int :=
  let _ := E
  if sreq = [] then (-1, -1) else
  match cut 0x2D sreq with
  | (lo, some hi) =>
    let r := match parseInt lo 10 32 with | .ok v => v | .error _ => 1
    let m := match parseInt hi 10 32 with | .ok v => v | .error _ => -1
    (r, m)
  | (_, none) =>
    match parseInt sreq 10 32 with
    | .ok v => (v, -1)
    | .error _ => (1, -1)

/-- `Option.String()` for an option of a subtree under construction (`path` = the namespaces
    that apply to it at this moment, outermost first, empty ones removed). -/
def optStr (delim : Bytes) (path : List Bytes) (o : Opt) : Bytes :=
  let ln := if o.long = [] then [] else join delim (path ++ [o.long])
  if o.short ≠ 0 then
    if o.long ≠ [] then B "-" ++ encodeRune o.short ++ B ", --" ++ ln else B "-" ++ encodeRune o.short
  else if o.long ≠ [] then B "--" ++ ln else []

structure DupState where
  longs : List (Bytes × Bytes) := []     -- namespaced long name ↦ String() of the first holder
  shorts : List (Nat × Bytes) := []
  err : Option GoErr := none

/-- one group of `checkForDuplicateFlags`: stops at this group's first duplicate -/
def dupGroup (delim : Bytes) (path : List Bytes) : List Opt → DupState → DupState
  | [], st => st
  | o :: os, st =>
    let me := optStr delim path o
    let ln := join delim (path ++ [o.long])
    match (if o.long ≠ [] then st.longs.lookup ln else none) with
    | some other =>
      { st with err := some (.flags .duplicatedFlag
          (B "option `" ++ me ++ B "' uses the same long name as option `" ++ other ++ B "'")) }
    | none =>
      let st := if o.long ≠ [] then { st with longs := st.longs ++ [(ln, me)] } else st
      match (if o.short ≠ 0 then st.shorts.lookup o.short else none) with
      | some other =>
        { st with err := some (.flags .duplicatedFlag
            (B "option `" ++ me ++ B "' uses the same short name as option `" ++ other ++ B "'")) }
      | none =>
        let st := if o.short ≠ 0 then { st with shorts := st.shorts ++ [(o.short, me)] } else st
        dupGroup delim path os st

/-- `checkForDuplicateFlags` over a group subtree (`gs` in pre-order, head = the scanned group);
    `outer` = namespaces above the subtree that are already assigned. -/
def checkDup (delim : Bytes) (outer : List Bytes) (gs : List Grp) : Option GoErr :=
  let sizes := gs.map (·.size)
  let st := (gs.zipIdx).foldl (fun st (g, gi) =>
    let path := outer ++ ((ancestorsOf sizes gi).map fun j => (gs.getD j {}).ns).filter (· ≠ [])
    dupGroup delim path g.opts st) ({} : DupState)
  st.err

/-- command-level accumulators of one command's scan -/
structure CB where
  args : List ArgD := []
  argsRequired : Bool := false
  cmds : List Cmd := []          -- the subcommand subtrees created so far, flattened in pre-order

/-- add a finished child subtree under the root of `gt` -/
def addChildGroup (gt : List Grp) (child : List Grp) : List Grp :=
  match gt with
  | [] => child
  | r :: rest => { r with size := r.size + child.length } :: (rest ++ child)

def addOptToRoot (gt : List Grp) (o : Opt) : List Grp :=
  match gt with
  | [] => []
  | r :: rest => { r with opts := r.opts ++ [o] } :: rest

structure ScanCtx where
  E : Env
  delim : Bytes
  outer : List Bytes       -- namespaces already assigned above the group being scanned

mutual
  /-- the field loop of `scanStruct` for the group at the root of `gt`; `cmdMode` selects the
      handler (`scanSubcommandHandler` vs `scanSubGroupHandler`) -/
  def scanFields (X : ScanCtx) : Nat → Bool → List Field → List Grp → CB → Except GoErr (List Grp × CB)
    | 0, _, _, gt, cb => .ok (gt, cb)
    | _ + 1, _, [], gt, cb => .ok (gt, cb)
    | fuel + 1, cmdMode, (.mk name exported tag ty init cbk) :: fs, gt, cb =>
      if !exported then scanFields X fuel cmdMode fs gt cb else
      match scanTag tag with
      | .error e => .error (tagErr tag e)
      | .ok mt =>
        if tagGet mt (B "no-flag") ≠ [] then scanFields X fuel cmdMode fs gt cb else
        match ty with
        | .val t =>
          match mkOption name mt t init cbk with
          | .error e => .error e
          | .ok none => scanFields X fuel cmdMode fs gt cb
          | .ok (some o) => scanFields X fuel cmdMode fs (addOptToRoot gt o) cb
        | .struct sub | .ptrStruct _ sub =>
          match scanHandler X fuel cmdMode mt sub gt cb with
          | .error e => .error e
          | .ok (gt', cb') => scanFields X fuel cmdMode fs gt' cb'

  /-- `scanStruct(fld, &field, handler)` for a struct-kinded field: the handler first, then —
      if it did not claim the field — the field loop into the same group -/
  def scanHandler (X : ScanCtx) : Nat → Bool → Tag → List Field → List Grp → CB → Except GoErr (List Grp × CB)
    | 0, _, _, _, gt, cb => .ok (gt, cb)
    | fuel + 1, cmdMode, mt, sub, gt, cb =>
      if cmdMode && tagGet mt (B "positional-args") ≠ [] then
        -- positional arguments: every field of the struct, in order
        let rec mkArgs : List Field → Except GoErr (List ArgD)
          | [] => .ok []
          | (.mk fname _ ftag fty finit _) :: r =>
            match scanTag ftag with
            | .error e => .error (tagErr ftag e)
            | .ok m =>
              let nm := tagGet m (B "positional-arg-name")
              let (req, mx) := parseArgRequired X.E (tagGet m (B "required"))
              let t := match fty with | .val t => t | _ => .sc .str
              match mkArgs r with
              | .error e => .error e
              | .ok rest => .ok ({ name := if nm = [] then fname else nm, desc := tagGet m (B "description"),
                                   required := req, requiredMax := mx, ty := t, tag := m, val := finit } :: rest)
        match mkArgs sub with
        | .error e => .error e
        | .ok as =>
          .ok (gt, { cb with args := cb.args ++ as,
                             argsRequired := cb.argsRequired || (as ≠ [] && tagGet mt (B "required") ≠ []) })
      else if cmdMode && tagGet mt (B "command") ≠ [] then
        match scanCommand X fuel (tagGet mt (B "command")) (tagGet mt (B "description"))
                (tagGet mt (B "long-description")) sub with
        | .error e => .error e
        | .ok tree =>
          let tree := match tree with
            | [] => []
            | c :: rest => ({ c with subOpt := tagGet mt (B "subcommands-optional") ≠ [],
                                     aliases := tagGetMany mt (B "alias") }.setHidden
                              (tagGet mt (B "hidden") ≠ [])) :: rest
          .ok (gt, { cb with cmds := cb.cmds ++ tree })
      else if tagGet mt (B "group") ≠ [] then
        -- Group.AddGroup: a fresh group scanned with the plain sub-group handler
        let g0 : Grp := { shortDesc := tagGet mt (B "group"), longDesc := tagGet mt (B "description") }
        match scanFields X fuel false sub [g0] cb with
        | .error e => .error e
        | .ok (child, cb') =>
          match checkDup X.delim X.outer child with
          | some e => .error e
          | none =>
            let child := match child with
              | [] => []
              | r :: rest => { r with ns := tagGet mt (B "namespace"), envNs := tagGet mt (B "env-namespace"),
                                      hidden := tagGet mt (B "hidden") ≠ [] } :: rest
            .ok (addChildGroup gt child, cb')
      else scanFields X fuel cmdMode sub gt cb

  /-- `AddCommand(name, short, long, data)`: a new command, its own group scanned in command
      mode; returns the new command's subtree in pre-order -/
  def scanCommand (X : ScanCtx) : Nat → Bytes → Bytes → Bytes → List Field → Except GoErr (List Cmd)
    | 0, _, _, _, _ => .ok []
    | fuel + 1, name, sd, ld, fs =>
      let g0 : Grp := { shortDesc := sd, longDesc := ld }
      match scanFields X fuel true fs [g0] {} with
      | .error e => .error e
      | .ok (gt, cb) =>
        match checkDup X.delim X.outer gt with
        | some e => .error e
        | none =>
          .ok ({ name := name, groups := gt, args := cb.args,
                 argsRequired := cb.argsRequired, size := 1 + cb.cmds.length } :: cb.cmds)
end

/-- generous fuel: scanning consumes one unit per field / handler / command level -/
def scanFuel : Nat := 100000

/-- insert `child` (a pre-order subtree) as the last child of entry `i` of a pre-order table
    with subtree sizes -/
def insertSubtree {α} (size : α → Nat) (setSize : α → Nat → α) (tbl : List α) (i : Nat) (child : List α) : List α :=
  let sizes := tbl.map size
  let anc := ancestorsOf sizes i
  let pos := i + sizes.getD i 1
  let bumped := (tbl.zipIdx).map fun (a, j) => if anc.contains j then setSize a (size a + child.length) else a
  bumped.take pos ++ child ++ bumped.drop pos

/-- `Command.AddCommand` on command `ci` of the parser -/
def Parser.addCommand (P : Parser) (E : Env) (ci : Nat) (name sd ld : Bytes) (fs : List Field)
    (commander : Nat) (usage : Option Bytes) : Except GoErr Parser :=
  let X : ScanCtx := { E := E, delim := P.nsDelim, outer := P.nsPath ci 0 (·.ns) }
  match scanCommand X scanFuel name sd ld fs with
  | .error e => .error e
  | .ok tree =>
    let tree := match tree with
      | [] => []
      | c :: rest => { c with commander := commander, usage := usage } :: rest
    .ok { P with cmds := insertSubtree (·.size) (fun c n => { c with size := n }) P.cmds ci tree }

/-- `Command.AddGroup` on command `ci`: the group's struct is scanned in command mode, so it
    may add positional arguments and subcommands to `ci` as well -/
def Parser.addGroup (P : Parser) (E : Env) (ci : Nat) (sd ld : Bytes) (fs : List Field) : Except GoErr Parser :=
  let X : ScanCtx := { E := E, delim := P.nsDelim, outer := P.nsPath ci 0 (·.ns) }
  let g0 : Grp := { shortDesc := sd, longDesc := ld }
  match scanFields X scanFuel true fs [g0] {} with
  | .error e => .error e
  | .ok (gt, cb) =>
    match checkDup X.delim X.outer gt with
    | some e => .error e
    | none =>
      let P := P.modCmd ci fun c =>
        { c with groups := insertSubtree (·.size) (fun g n => { g with size := n }) c.groups 0 gt,
                 args := c.args ++ cb.args, argsRequired := c.argsRequired || cb.argsRequired }
      .ok { P with cmds := insertSubtree (·.size) (fun c n => { c with size := n }) P.cmds ci cb.cmds }

/-- the built-in help group (`addHelpGroup`) -/
def helpGroup : Grp :=
  { shortDesc := B "Help Options", isBuiltinHelp := true,
    opts := [{ field := B "ShowHelp", short := 0x68, long := B "help", desc := B "Show this help message",
               ty := .func none true, cb := 1, val := .func,
               tag := [(B "short", B "h"), (B "long", B "help"), (B "description", B "Show this help message")] }] }

/-- `addHelpGroups`: every command that has none yet gets the help group as its last group -/
def Parser.addHelpGroups (P : Parser) : Parser :=
  { P with cmds := P.cmds.map fun c =>
      if c.hasBuiltinHelp then c else
      { c with hasBuiltinHelp := true,
               groups := insertSubtree (·.size) (fun g n => { g with size := n }) c.groups 0 [helpGroup] } }

end GoFlags
