/-
  ini.go: the INI reader (`readIni`), the application of a file to the parser
  (`IniParser.parse`) and the writer (`writeIni`), after the repairs D2, D6, D8, D10, D11, D14.
-/
import GoFlags.Parse

namespace GoFlags
open Bytes

structure IniVal where
  name : Bytes
  value : Bytes
  quoted : Bool
  line : Nat
  deriving Repr, DecidableEq

/-- sections in order of first appearance; the unnamed global section always comes first -/
abbrev IniFile := List (Bytes × List IniVal)

/-- the physical lines of the input: split at '\n' (a final unterminated line counts, an empty
    remainder after the last '\n' does not); `readFullLine` reassembles long lines, and the
    '\r' of a CRLF ending falls to the `TrimSpace` every line gets -/
def iniLines (text : Bytes) : List Bytes :=
  let ls := splitOn 0x0A text
  if ls.getLast? = some [] then ls.dropLast else ls

def iniAddEntry (f : IniFile) (sec : Bytes) (v : IniVal) : IniFile :=
  match f with
  | [] => [(sec, [v])]
  | (n, vs) :: r => if n = sec then (n, vs ++ [v]) :: r else (n, vs) :: iniAddEntry r sec v

def iniHasSection (f : IniFile) (sec : Bytes) : Bool := f.any (·.1 = sec)

/-- one (already numbered) line of `readIni` -/
def readIniLine (file : Bytes) (st : IniFile × Bytes) (lineno : Nat) (raw : Bytes) : Except GoErr (IniFile × Bytes) :=
  let (f, cur) := st
  let line := trimSpace raw
  match line with
  | [] => .ok st
  | 0x3B :: _ => .ok st                       -- ';'
  | 0x23 :: _ => .ok st                       -- '#'
  | 0x5B :: _ =>                               -- '['
    if line.getLast? ≠ some 0x5D then .error (.ini file lineno (B "malformed section header"))
    else
      let name := trimSpace ((line.drop 1).dropLast)
      if name = [] then .error (.ini file lineno (B "empty section name"))
      else .ok (if iniHasSection f name then f else f ++ [(name, [])], name)
  | _ =>
    match cut 0x3D line with
    | (_, none) => .error (.ini file lineno (B "malformed key=value (" ++ line ++ B ")"))
    | (k, some v) =>
      let name := trimSpace k
      let value := trimSpace v
      if name = [] then .error (.ini file lineno (B "malformed key=value (" ++ line ++ B ")"))
      else
        match value with
        | 0x22 :: _ =>
          match unquote value with
          | some u => .ok (iniAddEntry f cur ⟨name, u, true, lineno⟩, cur)
          | none => .error (.ini file lineno (B "invalid syntax"))
        | _ => .ok (iniAddEntry f cur ⟨name, value, false, lineno⟩, cur)

def readIniLines (file : Bytes) : List Bytes → Nat → IniFile × Bytes → Except GoErr IniFile
  | [], _, st => .ok st.1
  | l :: ls, n, st =>
    match readIniLine file st (n + 1) l with
    | .error e => .error e
    | .ok st' => readIniLines file ls (n + 1) st'

/-- `readIni(contents, filename)` -/
def readIni (file : Bytes) (text : Bytes) : Except GoErr IniFile :=
  readIniLines file (iniLines text) 0 ([([], [])], [])

/-! ### names -/

/-- `strings.ToLower` -/
def toLower (E : Env) (s : Bytes) : Bytes :=
  (runes s).flatMap fun r => encodeRune (if r < 0x80 then lowerByte r else E.toLowerHi r)

/-- the groups of one command's subtree rooted at group `gi`, as indices (pre-order) -/
def Cmd.subtree (c : Cmd) (gi : Nat) : List Nat := List.range' gi ((c.groups.getD gi {}).size)

/-- `Group.Find(name)` on group `gi` of command `ci`: the last proper sub-group whose short
    description equals `name` case-insensitively -/
def Parser.findGroup (P : Parser) (E : Env) (ci gi : Nat) (name : Bytes) : Option Nat :=
  let c := P.cmd ci
  ((c.subtree gi).drop 1).reverse.find? fun j => toLower E (c.groups.getD j {}).shortDesc = toLower E name

/-- `Command.groupByName(name)` — (command, group) -/
def Parser.groupByNameFuel (P : Parser) (E : Env) : Nat → Nat → Bytes → Option (Nat × Nat)
  | 0, _, _ => none
  | fuel + 1, ci, name =>
    let own : Option (Nat × Nat) := if name = [] then some (ci, 0) else (P.findGroup E ci 0 name).map fun g => (ci, g)
    match own with
    | some g => some g
    | none =>
      (P.subs ci).findSome? fun s =>
        let sn := (P.cmd s).name
        let pfx := sn ++ [0x2E]
        if hasPrefix name pfx then P.groupByNameFuel E fuel s (name.drop pfx.length)
        else if name = sn then some (s, 0) else none

/-- `IniParser.matchingGroups(name)` -/
def Parser.matchingGroups (P : Parser) (E : Env) (name : Bytes) : List (Nat × Nat) :=
  if name = [] then (List.range (P.cmd 0).groups.length).map fun g => (0, g)
  else match P.groupByNameFuel E (P.cmds.length + 1) 0 name with
    | some g => [g]
    | none => []

/-- `Group.optionByName(name, ini-name matcher)` over the subtree of group `gi`: the first option at
    the highest priority ini-name (case-insensitive) > field name > namespaced long name > short -/
def Parser.optionByName (P : Parser) (E : Env) (ci gi : Nat) (name : Bytes) : Option ORef :=
  let c := P.cmd ci
  let refs := (c.subtree gi).flatMap fun j => (List.range (c.groups.getD j {}).opts.length).map fun oi => (⟨ci, j, oi⟩ : ORef)
  let prio (r : ORef) : Nat :=
    let o := P.opt r
    if toLower E (tagGet o.tag (B "ini-name")) = toLower E name then 4
    else if name = o.field then 3
    else if name = P.longNS r then 2
    else if o.short ≠ 0 && name = encodeRune o.short then 1
    else 0
  let best := (refs.map prio).foldl max 0
  if best = 0 then none else refs.find? fun r => prio r = best

/-! ### applying a file -/

/-- `multiTag.Set(key, value)` -/
def tagSet (t : Tag) (k v : Bytes) : Tag := t.filter (·.1 ≠ k) ++ [(k, v)]

structure IniState where
  P : Parser
  log : List Event := []
  quotes : List (ORef × Bool) := []     -- quotesLookup
  deferred : List ORef := []            -- as-defaults: options to close once the file is read

def quotesUpdate (q : List (ORef × Bool)) (r : ORef) (quoted : Bool) : List (ORef × Bool) :=
  match q.lookup r with
  | none => q ++ [(r, quoted)]
  | some _ => if !quoted then (q.filter (·.1 ≠ r)) ++ [(r, false)] else q

/-- the option an entry name selects among the groups of its section (`no-ini` options are
    invisible to the reader) -/
def iniFindOption (E : Env) (P : Parser) (groups : List (Nat × Nat)) (name : Bytes) : Option ORef :=
  groups.findSome? fun g =>
    match P.optionByName E g.1 g.2 name with
    | some r => if tagGet (P.opt r).tag (B "no-ini") ≠ [] then none else some r
    | none => none

/-- the value handed to `Option.Set` for an entry, and whether it counts as quoted: a flag with
    an empty value gets no value; a map entry whose value part is a quoted literal is unquoted -/
def iniEntryValue (file : Bytes) (o : Opt) (v : IniVal) : Except GoErr (Option Bytes × Bool) :=
  if !o.ty.canArgument && v.value = [] then .ok (none, v.quoted)
  else match o.ty with
    | .map _ _ =>
      match cut 0x3A v.value with
      | (k, some (0x22 :: rest)) =>
        match unquote (0x22 :: rest) with
        | some u => .ok (some (k ++ [0x3A] ++ u), true)
        | none => .error (.ini file v.line (B "invalid syntax"))
      | _ => .ok (some v.value, v.quoted)
    | _ => .ok (some v.value, v.quoted)

def Opt.closeForDefaults (o : Opt) : Opt := { o with preventDefault := true }
def Opt.rememberIniName (name : Bytes) (o : Opt) : Opt := { o with tag := tagSet o.tag (B "_read-ini-name") name }

/-- what a successfully applied entry leaves behind besides the value: the option is closed for
    defaults (normal mode) and remembers the name it was read under -/
def iniMarkRead (asDefaults : Bool) (P : Parser) (r : ORef) (name : Bytes) : Parser :=
  (if asDefaults then P else P.modOpt r Opt.closeForDefaults).modOpt r (Opt.rememberIniName name)

/-- one entry of a section; on an error the parser keeps what `Option.Set` did before failing -/
def iniApplyEntry (E : Env) (help : HelpFn) (asDefaults : Bool) (file : Bytes) (groups : List (Nat × Nat))
    (st : IniState) (v : IniVal) : IniState × Option GoErr :=
  match iniFindOption E st.P groups v.name with
  | none =>
    if st.P.opts.ignoreUnknown then (st, none)
    else (st, some (.ini file v.line (B "unknown option: " ++ v.name)))
  | some r =>
    if asDefaults && (st.P.opt r).preventDefault then (st, none) else
    match iniEntryValue file (st.P.opt r) v with
    | .error e => (st, some e)
    | .ok (pv, quoted) =>
      let res := if asDefaults then optSetDefault E help st.P r pv st.log else optSet E help st.P r pv st.log
      match res.2.2 with
      | some e => ({ st with P := res.1, log := res.2.1 }, some (.ini file v.line e.text))
      | none =>
        ({ P := iniMarkRead asDefaults res.1 r v.name, log := res.2.1, quotes := quotesUpdate st.quotes r quoted,
           deferred := if asDefaults then st.deferred ++ [r] else st.deferred }, none)

def iniApplyEntries (E : Env) (help : HelpFn) (asDefaults : Bool) (file : Bytes) (groups : List (Nat × Nat)) :
    List IniVal → IniState → IniState × Option GoErr
  | [], st => (st, none)
  | v :: vs, st =>
    match iniApplyEntry E help asDefaults file groups st v with
    | (st', some e) => (st', some e)
    | (st', none) => iniApplyEntries E help asDefaults file groups vs st'

def iniApplySections (E : Env) (help : HelpFn) (asDefaults : Bool) (file : Bytes) :
    IniFile → IniState → IniState × Option GoErr
  | [], st => (st, none)
  | (name, vals) :: rest, st =>
    match st.P.matchingGroups E name with
    | [] =>
      if st.P.opts.ignoreUnknown then iniApplySections E help asDefaults file rest st
      else (st, some (.flags .unknownGroup (B "could not find option group `" ++ name ++ B "'")))
    | groups =>
      match iniApplyEntries E help asDefaults file groups vals st with
      | (st', some e) => (st', some e)
      | (st', none) => iniApplySections E help asDefaults file rest st'

structure IniResult where
  P : Parser
  err : Option GoErr
  log : List Event

/-- `IniParser.parse(ini)`; on an error the parser keeps what was applied before it -/
def iniApply (E : Env) (help : HelpFn) (asDefaults : Bool) (file : Bytes) (P : Parser) (f : IniFile) : IniResult :=
  let P := P.allORefs.foldl (fun P r => P.modOpt r fun o => { o with clearRef := true }) P
  let (st, err) := iniApplySections E help asDefaults file f { P := P }
  match err with
  | some e => { P := st.P, err := some e, log := st.log }
  | none =>
    let P := st.deferred.foldl (fun P r => P.modOpt r fun o => { o with preventDefault := true }) st.P
    let P := st.quotes.foldl (fun P q => P.modOpt q.1 fun o => { o with iniQuote := q.2 }) P
    { P := P, err := none, log := st.log }

/-- `IniParser.Parse(reader)` -/
def iniParse (E : Env) (help : HelpFn) (asDefaults : Bool) (P : Parser) (text : Bytes) : IniResult :=
  match readIni [] text with
  | .error e => { P := P, err := some e, log := [] }
  | .ok f => iniApply E help asDefaults [] P f

/-! ### writing -/

structure IniOpts where
  includeDefaults : Bool := false
  commentDefaults : Bool := false
  includeComments : Bool := false
  deriving Repr, DecidableEq

def isNaNBits (b : Nat) : Bool := (b / 2 ^ 52) % 2048 = 2047 && b % 2 ^ 52 ≠ 0

def svalDeepEq : SVal → SVal → Bool
  | .float a, .float b => !isNaNBits a && !isNaNBits b && (a = b || (a % 2 ^ 63 = 0 && b % 2 ^ 63 = 0))
  | a, b => a = b

/-- `reflect.DeepEqual` on option values -/
def valDeepEq : Val → Val → Bool
  | .sc a, .sc b => svalDeepEq a b
  | .slice n xs, .slice m ys => n = m && xs.length = ys.length && (xs.zip ys).all fun p => svalDeepEq p.1 p.2
  | .ptr none, .ptr none => true
  | .ptr (some a), .ptr (some b) => svalDeepEq a b
  | .map n xs, .map m ys =>
    n = m && xs.length = ys.length && xs.all fun kv => match ys.lookup kv.1 with
      | some v => svalDeepEq kv.2 v
      | none => false
  | .func, .func => true
  | _, _ => false

/-- `Option.valueIsDefault` -/
def valueIsDefault (E : Env) (o : Opt) : Bool :=
  let check := o.dflt.foldl (fun cur d =>
    match convert E o.tag d o.ty cur with
    | .ok v => v
    | .error _ => convertFailState o.ty cur) o.ty.emptyValue
  valDeepEq o.val check

/-- does a string need quoting to survive `readIni` (after the D10 fix) -/
def iniNeedsQuote (E : Env) (s : Bytes) : Bool :=
  !isPrintStr E s || s.head? = some 0x20 || s.getLast? = some 0x20 || s.head? = some 0x22

def Sc.isStringKind : Sc → Bool
  | .str | .custom _ => true
  | _ => false

/-- `writeOption` -/
def writeOption (E : Env) (name : Bytes) (elemString : Bool) (key value : Bytes) (comment forceQuote : Bool) : Bytes :=
  let value := if forceQuote || (elemString && iniNeedsQuote E value) then quote E value else value
  let kv := key ++ [0x3A] ++ value
  let kv := if !isPrintStr E key || key.head? = some 0x22 then quote E kv else kv
  (if comment then B "; " else []) ++ name ++ B " =" ++
    (if key ≠ [] then B " " ++ kv else if value ≠ [] then B " " ++ value else []) ++ [0x0A]

/-- `optionIniName` -/
def optionIniName (o : Opt) : Bytes :=
  let n := tagGet o.tag (B "_read-ini-name")
  if n ≠ [] then n else
  let n := tagGet o.tag (B "ini-name")
  if n ≠ [] then n else o.field

def toStr (E : Env) (o : Opt) (s : Sc) (v : SVal) : Bytes := (svalToString E o.tag s v).toOption.getD []

/-- one option of `writeGroupIni` (after the section header) -/
def writeIniOption (E : Env) (o : Opt) (io : IniOpts) : Bytes :=
  let oname := optionIniName o
  -- every line of the description is a comment line (D23)
  let cmt := if io.includeComments && o.desc ≠ [] then
      B "; " ++ (o.desc.flatMap fun b => if b = 0x0A then B "\n; " else [b]) ++ [0x0A] else []
  let commentOption := io.includeDefaults && io.commentDefaults && valueIsDefault E o
  let body : Bytes :=
    match o.ty, o.val with
    | .slice s, .slice _ xs =>
      if xs = [] then writeOption E oname s.isStringKind [] [] true o.iniQuote
      else xs.flatMap fun x => writeOption E oname s.isStringKind [] (toStr E o s x) commentOption o.iniQuote
    | .map k vt, .map _ kvs =>
      if kvs = [] then writeOption E oname vt.isStringKind [] [] true o.iniQuote
      else
        let items := kvs.map fun kv => (toStr E o k kv.1, toStr E o vt kv.2)
        (items.mergeSort fun a b => bytesLe a.1 b.1).flatMap fun kv =>
          writeOption E oname vt.isStringKind kv.1 kv.2 commentOption o.iniQuote
    | .ptr _, .ptr none => writeOption E oname false [] [] true o.iniQuote
    | .ptr s, .ptr (some x) => writeOption E oname s.isStringKind [] (toStr E o s x) commentOption o.iniQuote
    | .sc s, .sc x => writeOption E oname s.isStringKind [] (toStr E o s x) commentOption o.iniQuote
    | _, _ => []
  cmt ++ body ++ (if io.includeComments then [0x0A] else [])

/-- `writeGroupIni` -/
def writeGroupIni (E : Env) (c : Cmd) (gi : Nat) (ns : Bytes) (io : IniOpts) : Bytes :=
  let g := c.groups.getD gi {}
  let sname := if gi ≠ 0 && g.shortDesc ≠ [] then (if ns ≠ [] then ns ++ [0x2E] else []) ++ g.shortDesc else ns
  let opts := g.opts.filter fun o =>
    !o.ty.isFunc && !o.hidden && tagGet o.tag (B "no-ini") = [] && (io.includeDefaults || !valueIsDefault E o)
  if opts = [] then []
  else B "[" ++ sname ++ B "]\n" ++ opts.flatMap (fun o => writeIniOption E o io) ++
    (if !io.includeComments then [0x0A] else [])

/-- `writeCommandIni` -/
def writeCommandIniFuel (E : Env) (P : Parser) (io : IniOpts) : Nat → Nat → Bytes → Bytes
  | 0, _, _ => []
  | fuel + 1, ci, ns =>
    let c := P.cmd ci
    let own := (List.range c.groups.length).flatMap fun gi =>
      if (c.groups.getD gi {}).hidden then [] else writeGroupIni E c gi ns io
    own ++ (P.subs ci).flatMap fun s =>
      if (P.cmd s).hidden then []
      else writeCommandIniFuel E P io fuel s (if ns ≠ [] then ns ++ [0x2E] ++ (P.cmd s).name else (P.cmd s).name)

/-- `IniParser.Write` -/
def writeIni (E : Env) (P : Parser) (io : IniOpts) : Bytes :=
  writeCommandIniFuel E P io (P.cmds.length + 1) 0 []

end GoFlags
