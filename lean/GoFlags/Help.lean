/-
  help.go: `getAlignmentInfo`, `writeHelpOption`, `WriteHelp` — byte-exact (after the D3 fix:
  the width already written is counted in characters).  `none` = the Go code would panic
  (`strings.Repeat` with a negative count).
-/
import GoFlags.Decl
import GoFlags.Wrap

namespace GoFlags
open Bytes

structure AlignInfo where
  maxLongLen : Nat := 0
  hasShort : Bool := false
  hasValueName : Bool := false
  cols : Nat := 80
  indent : Bool := false
  deriving Repr

def AlignInfo.descriptionStart (a : AlignInfo) : Nat :=
  a.maxLongLen + 2 + (if a.hasShort then 2 else 0) + (if a.maxLongLen > 0 then 4 else 0) +
    (if a.hasValueName then 3 else 0)

def AlignInfo.updateLen (a : AlignInfo) (name : Bytes) (indent : Bool) : AlignInfo :=
  let l := runeCount name + (if indent then 4 else 0)
  if l > a.maxLongLen then { a with maxLongLen := l } else a

def Opt.showInHelp (o : Opt) : Bool := !o.hidden && (o.short ≠ 0 || o.long ≠ [])

def Grp.showInHelp (g : Grp) : Bool := !g.hidden && g.opts.any Opt.showInHelp

def choicesText (o : Opt) : Bytes :=
  if o.choices = [] then [] else B "[" ++ join (B "|") o.choices ++ B "]"

/-- `Parser.getAlignmentInfo`; `termCols` is what `getTerminalColumns()` returned -/
def getAlignmentInfo (P : Parser) (termCols : Int) : AlignInfo :=
  let a0 : AlignInfo := { cols := if termCols ≤ 0 then 80 else termCols.toNat }
  P.activeChain.foldl (fun a ci =>
    let c := P.cmd ci
    let a := c.args.foldl (fun a ad => a.updateLen ad.name (ci ≠ 0)) a
    (c.groups.zipIdx).foldl (fun a (g, gi) =>
      if !g.showInHelp then a else
      (List.range g.opts.length).foldl (fun a oi =>
        let o := g.opts.getD oi {}
        if !o.showInHelp then a else
        let a := if o.short ≠ 0 then { a with hasShort := true } else a
        let a := if o.valueName ≠ [] then { a with hasValueName := true } else a
        a.updateLen (P.longNS ⟨ci, gi, oi⟩ ++ o.valueName ++ choicesText o) (ci ≠ 0)) a) a) a0

def spaces (n : Nat) : Bytes := List.replicate n 0x20

/-- `strings.Repeat(" ", n)`; panics for negative `n` -/
def repeatSp (n : Int) : Option Bytes := if n < 0 then none else some (spaces n.toNat)

/-- the part of an option's help row before the description: padding, short name, long name,
    `=value-name[choices]` -/
def helpOptionHead (o : Opt) (longNS : Bytes) (info : AlignInfo) : Bytes :=
  let prefixN := 2 + (if info.indent then 4 else 0)
  let line := spaces prefixN
  let line := line ++ (if o.short ≠ 0 then 0x2D :: encodeRune o.short else if info.hasShort then B "  " else [])
  let line := line ++ (if o.long ≠ [] then
      (if o.short ≠ 0 then B ", " else if info.hasShort then B "  " else []) ++ B "--" ++ longNS
    else [])
  line ++ (if o.ty.canArgument then 0x3D :: (o.valueName ++ choicesText o) else [])

/-- the description text: description, default (or its mask), environment variable -/
def helpOptionDesc (o : Opt) (envKey : Bytes) : Bytes :=
  let dflt := if o.defaultMask ≠ [] then (if o.defaultMask ≠ B "-" then o.defaultMask else []) else o.defaultLiteral
  let envDef := if envKey ≠ [] then B " [$" ++ envKey ++ B "]" else []
  if dflt ≠ [] then o.desc ++ B " (default: " ++ dflt ++ B ")" ++ envDef else o.desc ++ envDef

/-- one option row of the help, as a function of the option record and its two derived names -/
def helpOptionText (o : Opt) (longNS envKey : Bytes) (info : AlignInfo) : Option Bytes :=
  if o.hidden then some [] else
  let line := helpOptionHead o longNS info
  let descstart := info.descriptionStart + 2
  if o.desc ≠ [] then
    match repeatSp ((descstart : Int) - runeCount line) with
    | none => none
    | some pad =>
      some (line ++ pad ++ wrapText (helpOptionDesc o envKey) ((info.cols : Int) - descstart) (spaces descstart) ++ [0x0A])
  else some (line ++ [0x0A])

/-- `Parser.writeHelpOption` -/
def writeHelpOption (P : Parser) (r : ORef) (info : AlignInfo) : Option Bytes :=
  helpOptionText (P.opt r) (P.longNS r) (P.envKeyNS r) info

/-- stable sort of the visible subcommands of `ci` by name -/
def insertCmdSorted (P : Parser) (x : Nat) : List Nat → List Nat
  | [] => [x]
  | y :: ys =>
    -- strict `<` keeps equal names in their original order (insertion from the right)
    if bytesLe (P.cmd x).name (P.cmd y).name then x :: y :: ys else y :: insertCmdSorted P x ys

def Parser.visibleCommands (P : Parser) (ci : Nat) : List Nat := (P.subs ci).filter fun s => !(P.cmd s).hidden

def Parser.sortedVisibleCommands (P : Parser) (ci : Nat) : List Nat :=
  (P.visibleCommands ci).foldr (insertCmdSorted P) []

/-- `Command.hasHelpOptions` -/
def Cmd.hasHelpOptions (c : Cmd) : Bool :=
  c.groups.any fun g => !g.isBuiltinHelp && g.opts.any Opt.showInHelp

def optBind {α} (a : Option Bytes) (f : Bytes → Option α) : Option α := a.bind f

/-- usage line part for one command of the active chain -/
def usageLinePart (P : Parser) (ci : Nat) : Bytes :=
  let c := P.cmd ci
  let usage : Bytes :=
    if ci = 0 then (if P.usage ≠ [] then P.usage else if P.opts.helpFlag then B "[OPTIONS]" else [])
    else match c.usage with
      | some u => u
      | none => if c.hasHelpOptions then B "[" ++ c.name ++ B "-OPTIONS]" else []
  let s := if usage ≠ [] then B " " ++ c.name ++ B " " ++ usage else B " " ++ c.name
  let s := s ++ (if c.args ≠ [] then B " " else [])
  let argTexts := c.args.map fun a =>
    let name := if a.isRemaining then a.name ++ B "..." else a.name
    if !c.argsRequired then (if a.required > 0 then name else B "[" ++ name ++ B "]") else name
  let s := s ++ join (B " ") argTexts
  if c.active.isNone && (P.subs ci) ≠ [] then
    let (co, cc) := if c.subOpt then (B "[", B "]") else (B "<", B ">")
    if (P.visibleCommands ci).length > 3 then s ++ B " " ++ co ++ B "command" ++ cc
    else s ++ B " " ++ co ++ join (B " | ") ((P.sortedVisibleCommands ci).map fun i => (P.cmd i).name) ++ cc
  else s

/-- options part for one command of the chain; threads `indent` -/
def helpOptionsOfCmd (P : Parser) (innermost : Nat) (ci : Nat) (info : AlignInfo) : Option (Bytes × AlignInfo) :=
  let c := P.cmd ci
  let step (acc : Option (Bytes × AlignInfo × Bool)) (ggi : Grp × Nat) : Option (Bytes × AlignInfo × Bool) :=
    match acc with
    | none => none
    | some (out, info, printcmd) =>
      let (g, gi) := ggi
      if g.hidden || (g.isBuiltinHelp && ci ≠ 0) then some (out, info, printcmd) else
      let rec go : List Nat → Bytes → AlignInfo → Bool → Bool → Option (Bytes × AlignInfo × Bool)
        | [], out, info, printcmd, _ => some (out, info, printcmd)
        | oi :: ois, out, info, printcmd, first =>
          let o := g.opts.getD oi {}
          if !o.showInHelp then go ois out info printcmd first else
          let (out, info, printcmd) :=
            if printcmd then (out ++ B "\n[" ++ c.name ++ B " command options]\n", { info with indent := true }, false)
            else (out, info, printcmd)
          let (out, first) :=
            if first && !(ci = innermost && gi = 0) then
              (out ++ B "\n" ++ (if info.indent then B "    " else []) ++ g.shortDesc ++ B ":\n", false)
            else (out, first)
          match writeHelpOption P ⟨ci, gi, oi⟩ info with
          | none => none
          | some t => go ois (out ++ t) info printcmd first
      go (List.range g.opts.length) out info printcmd true
  match (c.groups.zipIdx).foldl step (some ([], info, ci ≠ 0)) with
  | none => none
  | some (out, info, _) => some (out, info)

def helpArgsOfCmd (P : Parser) (ci : Nat) (info : AlignInfo) : Option Bytes :=
  let c := P.cmd ci
  let args := c.args.filter fun a => a.desc ≠ []
  if args = [] then some [] else
  let hdr := if ci = 0 then B "\nArguments:\n" else B "\n[" ++ c.name ++ B " command arguments]\n"
  let descStart := info.descriptionStart + 2
  args.foldl (fun acc a =>
    match acc with
    | none => none
    | some out =>
      let argPrefix := B "  " ++ a.name ++ B ":"
      match repeatSp ((descStart : Int) - runeCount argPrefix) with
      | none => none
      | some pad =>
        some (out ++ argPrefix ++ pad ++
          wrapText a.desc ((info.cols : Int) - 1 - descStart) (spaces descStart) ++ [0x0A])) (some hdr)

/-- `Parser.WriteHelp` -/
def writeHelp (P : Parser) (termCols : Int) : Option Bytes :=
  let info := getAlignmentInfo P termCols
  let chain := P.activeChain
  let innermost := chain.getLastD 0
  let root := P.cmd 0
  let cmd := P.cmd innermost
  let head : Bytes :=
    if root.name ≠ [] then
      let line := B "Usage:\n " ++ (chain.flatMap (usageLinePart P)) ++ [0x0A]
      if cmd.longDesc ≠ [] then line ++ [0x0A] ++ wrapText cmd.longDesc info.cols [] ++ [0x0A] else line
    else []
  let body := chain.foldl (fun acc ci =>
    match acc with
    | none => none
    | some (out, info) =>
      match helpOptionsOfCmd P innermost ci info with
      | none => none
      | some (t, info) =>
        match helpArgsOfCmd P ci info with
        | none => none
        | some a => some (out ++ t ++ a, info)) (some (([] : Bytes), info))
  match body with
  | none => none
  | some (body, _) =>
    let sc := P.sortedVisibleCommands innermost
    let cmds : Bytes :=
      if sc = [] then [] else
      let maxlen := (sc.map fun i => (P.cmd i).name.length).foldl max 0
      B "\nAvailable commands:\n" ++ sc.flatMap fun i =>
        let c := P.cmd i
        B "  " ++ c.name ++
        (if c.shortDesc ≠ [] then
          spaces (maxlen - c.name.length) ++ B "  " ++ c.shortDesc ++
            (if c.aliases ≠ [] then B " (aliases: " ++ join (B ", ") c.aliases ++ B ")" else [])
         else []) ++ [0x0A]
    some (head ++ body ++ cmds)

end GoFlags
