/-
  parser.go / option.go: `ParseArgs` — the argument loop, option application, defaults,
  required checks, command estimation and dispatch.  Written the way the Go code is written.
-/
import GoFlags.Scan
import GoFlags.Optstyle
import GoFlags.Closest

namespace GoFlags
open Bytes

/-- observable side effects, in order -/
inductive Event where
  | cb (r : ORef) (arg : Option SVal)                       -- a callback option ran
  | exec (ci : Nat) (args : List Bytes)                      -- Commander.Execute
  | cmdHandler (ci : Option Nat) (args : List Bytes)         -- Parser.CommandHandler
  | unknown (name : Bytes) (arg : Option Bytes) (args : List Bytes)  -- UnknownOptionHandler
  | out (stderr : Bool) (text : Bytes)                       -- bytes written to stdout / stderr
  deriving Repr, DecidableEq

/-- the rendering of the help text is a parameter of the parse model (help.go is modelled in
    Help.lean; the parse theorems do not depend on what it prints) -/
abbrev HelpFn := Parser → Bytes

structure PS where
  P : Parser
  arg : Bytes := []
  args : List Bytes := []
  retargs : List Bytes := []
  positional : List (Nat × Nat) := []   -- (command, index into its args)
  cmd : Nat := 0
  err : Option GoErr := none
  log : List Event := []
  deriving Inhabited

/-- `strings.Split(s, sep)` for non-empty `sep` -/
def splitStrFuel (sep : Bytes) : Nat → Bytes → Bytes → List Bytes
  | 0, _, acc => [acc.reverse]
  | _ + 1, [], acc => [acc.reverse]
  | fuel + 1, c :: s, acc =>
    if hasPrefix (c :: s) sep then acc.reverse :: splitStrFuel sep fuel ((c :: s).drop sep.length) []
    else splitStrFuel sep fuel s (c :: acc)

def splitStr (s sep : Bytes) : List Bytes := splitStrFuel sep (s.length + 1) s []

/-! ### option.go -/

/-- map or slice kind -/
def Ty.isRef : Ty → Bool
  | .map _ _ | .slice _ => true
  | _ => false

def Opt.empty (o : Opt) : Opt := if o.ty.isFunc then o else { o with val := o.ty.emptyValue }

/-- behaviour of the harness' callback fields (harness/types.go) -/
def callbackResult (help : HelpFn) (P : Parser) (cb : Nat) (arg : Option SVal) : Option GoErr :=
  match cb, arg with
  | 1, _ => some (.flags .help (help P))
  | 10, some (.str (0x21 :: r)) => some (.foreign (B "cberr: " ++ (0x21 :: r)))
  | 14, _ => some (.foreign (B "cberr: refused"))
  | _, _ => none

/-- `Option.call` -/
def optCall (E : Env) (help : HelpFn) (P : Parser) (r : ORef) (value : Option Bytes) (log : List Event) :
    Parser × List Event × Option GoErr :=
  let o := P.opt r
  match o.ty, value with
  | .func (some s) _, some v =>
    match convertSc E o.tag v s with
    | .error m => (P, log, some (.foreign m))
    | .ok a =>
      if o.cb = 1 then (P, log, callbackResult help P o.cb (some a))
      else (P, log ++ [.cb r (some a)], callbackResult help P o.cb (some a))
  | _, _ =>
    if o.cb = 1 then (P, log, callbackResult help P o.cb none)
    else (P, log ++ [.cb r none], callbackResult help P o.cb none)

/-- "a, b or c" -/
def allowedList (cs : List Bytes) : Bytes :=
  match cs.reverse with
  | [] => []
  | [only] => only
  | last :: revInit => join (B ", ") revInit.reverse ++ B " or " ++ last

/-- the first half of `Option.Set`: the reference-clearing rule and the three flags -/
def Opt.markSet (o : Opt) : Opt :=
  let o := if o.ty.isRef && o.clearRef then o.empty else o
  { o with isSet := true, preventDefault := true, clearRef := false }

/-- the choice test of `Option.Set` (no value, nothing to test — after the D1 fix) -/
def choiceRejected (o : Opt) (value : Option Bytes) : Bool :=
  match value with
  | some v => o.choices ≠ [] && !o.choices.contains v
  | none => false

/-- `Option.Set` -/
def optSet (E : Env) (help : HelpFn) (P : Parser) (r : ORef) (value : Option Bytes) (log : List Event) :
    Parser × List Event × Option GoErr :=
  let o := (P.opt r).markSet
  let P1 := P.modOpt r fun _ => o
  if choiceRejected o value then
    (P1, log, some (.flags .invalidChoice (B "Invalid value `" ++ value.getD [] ++ B "' for option `" ++
      P1.optString r ++ B "'. Allowed values are: " ++ allowedList o.choices)))
  else if o.ty.isFunc then optCall E help P1 r value log
  else
    match convert E o.tag (value.getD []) o.ty o.val with
    | .ok v => (P1.modOpt r fun o => { o with val := v }, log, none)
    | .error m => (P1.modOpt r fun o => { o with val := convertFailState o.ty o.val }, log, some (.foreign m))

/-- `Option.setDefault` -/
def optSetDefault (E : Env) (help : HelpFn) (P : Parser) (r : ORef) (value : Option Bytes) (log : List Event) :
    Parser × List Event × Option GoErr :=
  if (P.opt r).preventDefault then (P, log, none) else
  match optSet E help P r value log with
  | (P, log, some e) => (P, log, some e)
  | (P, log, none) => (P.modOpt r fun o => { o with isSetDefault := true, preventDefault := false }, log, none)

def setDefaults (E : Env) (help : HelpFn) (r : ORef) : List Bytes → Parser → List Event → Parser × List Event × Option GoErr
  | [], P, log => (P, log, none)
  | d :: ds, P, log =>
    match optSetDefault E help P r (some d) log with
    | (P, log, some e) => (P, log, some e)
    | (P, log, none) => setDefaults E help r ds P log

/-- the defaults `clearDefault` will apply: the environment variable (split on `env-delim`)
    when the option has an env key and the variable is set, else the `default` tags -/
def usedDefault (E : Env) (P : Parser) (r : ORef) : List Bytes :=
  let o := P.opt r
  let envKey := P.envKeyNS r
  if envKey ≠ [] then
    match E.getenv envKey with
    | some v => if o.envDelim ≠ [] then splitStr v o.envDelim else [v]
    | none => o.dflt
  else o.dflt

def Opt.isNilMap (o : Opt) : Bool :=
  match o.ty, o.val with
  | .map _ _, .map true _ => true
  | _, _ => false

/-- `Option.clearDefault` -/
def optClearDefault (E : Env) (help : HelpFn) (P : Parser) (r : ORef) (log : List Event) :
    Parser × List Event × Option GoErr :=
  if (P.opt r).preventDefault then (P, log, none) else
  let P1 := P.modOpt r fun o => { o with isSetDefault := true }
  if usedDefault E P r ≠ [] then
    setDefaults E help r (usedDefault E P r) (P1.modOpt r Opt.empty) log
  else if (P.opt r).isNilMap then (P1.modOpt r Opt.empty, log, none)
  else (P1, log, none)

/-- `Parser.marshalError` -/
def marshalError (P : Parser) (r : ORef) (msg : Bytes) : GoErr :=
  let o := P.opt r
  let expected := if o.ty.isFunc then [] else o.ty.name
  .flags .marshal (B "invalid argument for flag `" ++ P.optString r ++ B "'" ++
    (if expected ≠ [] then B " (expected " ++ expected ++ B ")" else []) ++ B ": " ++ msg)

def wrapMarshal (P : Parser) (r : ORef) : GoErr → GoErr
  | .flags t m => .flags t m
  | e => marshalError P r e.text

/-- `Option.updateDefaultLiteral` -/
def updateDefaultLiteral (E : Env) (o : Opt) : Opt :=
  let isZeroSc : SVal → Bool
    | .str b => b = [] | .bool b => !b | .int v => v = 0 | .uint v => v = 0
    | .float b => b = 0 || b = 0x8000000000000000
  let dl :=
    if o.dflt = [] && o.ty.canArgument then
      let showdef := match o.val with
        | .func => true
        | .ptr v => v.isSome
        | .slice _ xs => xs ≠ []
        | .map n kvs => !n && kvs ≠ []
        | .sc v => !isZeroSc v
      if showdef then (convertToString E o.tag o.ty o.val).toOption.getD [] else []
    else if o.dflt ≠ [] then join (B ", ") (o.dflt.map (quoteIfNeeded E))
    else []
  { o with defaultLiteral := dl }

/-! ### parser.go -/

def PS.eof (s : PS) : Bool := s.args = []

def PS.pop (s : PS) : PS × Bytes :=
  match s.args with
  | [] => (s, [])
  | a :: r => ({ s with arg := a, args := r }, a)

/-- `Command.fillParseState` -/
def PS.fill (s : PS) (ci : Nat) : PS :=
  { s with positional := (List.range (s.P.cmd ci).args.length).map fun i => (ci, i), cmd := ci }

def Parser.argAt (P : Parser) (a : Nat × Nat) : ArgD := (P.cmd a.1).args.getD a.2 {}

def Parser.modArg (P : Parser) (a : Nat × Nat) (f : ArgD → ArgD) : Parser :=
  P.modCmd a.1 fun c => { c with args := listModify c.args a.2 f }

/-- `parseState.addArgs`: fill pending positionals, then the remaining arguments -/
def PS.addArgs (E : Env) : PS → List Bytes → PS × Option GoErr
  | s, [] => (s, none)
  | s, a :: as =>
    match s.positional with
    | [] => ({ s with retargs := s.retargs ++ (a :: as) }, none)
    | p :: ps =>
      let ad := s.P.argAt p
      match convert E ad.tag a ad.ty ad.val with
      | .error m =>
        let P := s.P.modArg p fun ad => { ad with val := convertFailState ad.ty ad.val }
        ({ s with P := P, err := some (.foreign m) }, some (.foreign m))
      | .ok v =>
        let P := s.P.modArg p fun ad => { ad with val := v }
        PS.addArgs E { s with P := P, positional := if ad.isRemaining then p :: ps else ps } as

/-- `Option.isValidValue` -/
def isValidValue (P : Parser) (r : ORef) (arg : Bytes) : Option Bytes :=
  let o := P.opt r
  if o.ty.isValidator then
    match arg with
    | 0x7E :: _ => some (B "vstr: bad value " ++ arg)
    | _ => none
  else
    let negNumber := match arg with
      | 0x2D :: d :: _ => o.ty.isSignedNumber && 0x30 ≤ d && d ≤ 0x39
      | _ => false
    if argumentIsOption arg && !negNumber then
      some (B "expected argument for flag `" ++ P.optString r ++ B "', but got option `" ++ arg ++ B "'")
    else none

def setOptionalValues (E : Env) (help : HelpFn) (r : ORef) : List Bytes → Parser → List Event → Parser × List Event × Option GoErr
  | [], P, log => (P, log, none)
  | v :: vs, P, log =>
    match optSet E help P r (some v) log with
    | (P, log, some e) => (P, log, some e)
    | (P, log, none) => setOptionalValues E help r vs P log

/-- store the outcome of `Option.Set` in the parse state; a non-flags error becomes ErrMarshal -/
def finishSet (s : PS) (r : ORef) (res : Parser × List Event × Option GoErr) : PS × Option GoErr :=
  ({ s with P := res.1, log := res.2.1 }, res.2.2.map (wrapMarshal res.1 r))

/-- the argument of an option occurrence: the inline one, or the next token (popped and checked) -/
def takeArgument (s : PS) (r : ORef) (argument : Option Bytes) : PS × Bytes × Option GoErr :=
  match argument with
  | some a => (s, a, none)
  | none =>
    let (s, a) := s.pop
    match isValidValue s.P r a with
    | some m => (s, a, some (.flags .expectedArgument m))
    | none =>
      if s.P.opts.passDoubleDash && a = B "--" then
        (s, a, some (.flags .expectedArgument (B "expected argument for flag `" ++ s.P.optString r ++
          B "', but got double dash `--'")))
      else (s, a, none)

/-- `Parser.parseOption` -/
def parseOption (E : Env) (help : HelpFn) (s : PS) (r : ORef) (canarg : Bool) (argument : Option Bytes) :
    PS × Option GoErr :=
  let o := s.P.opt r
  if !o.ty.canArgument then
    if argument.isSome then
      (s, some (.flags .noArgumentForBool (B "bool flag `" ++ s.P.optString r ++ B "' cannot have an argument")))
    else finishSet s r (optSet E help s.P r none s.log)
  else if argument.isSome || (canarg && !s.eof) then
    match takeArgument s r argument with
    | (s, _, some e) => (s, some e)
    | (s, arg, none) =>
      let unq : Option Bytes :=
        if tagGet o.tag (B "unquote") ≠ B "false" then unquoteIfPossible arg else some arg
      match unq with
      | none => (s, some (marshalError s.P r (B "invalid syntax")))
      | some a => finishSet s r (optSet E help s.P r (some a) s.log)
  else if o.optionalArg then
    finishSet s r (setOptionalValues E help r o.optionalValue (s.P.modOpt r Opt.empty) s.log)
  else
    (s, some (.flags .expectedArgument (B "expected argument for flag `" ++ s.P.optString r ++ B "'")))

/-- `Parser.parseLong` -/
def parseLong (E : Env) (help : HelpFn) (s : PS) (name : Bytes) (argument : Option Bytes) : PS × Option GoErr :=
  match s.P.lookupLong s.cmd name with
  | some r => parseOption E help s r (!(s.P.opt r).optionalArg) argument
  | none => (s, some (.flags .unknownFlag (B "unknown flag `" ++ name ++ B "'")))

/-- `Parser.splitShortConcatArg` -/
def splitShortConcatArg (s : PS) (optname : Bytes) : Bytes × Option Bytes :=
  let (c, n) := decodeRune optname
  if n = optname.length then (optname, none) else
  match s.P.lookupShort s.cmd c with
  | some r => if (s.P.opt r).ty.canArgument then (encodeRune c, some (optname.drop n)) else (optname, none)
  | none => (optname, none)

/-- the `for i, c := range optname` loop of `parseShort`; `total` = len(optname), `i` = byte offset -/
def parseShortLoop (E : Env) (help : HelpFn) (total : Nat) : Nat → PS → Bytes → Nat → Option Bytes → PS × Option GoErr
  | 0, s, _, _, _ => (s, none)
  | _ + 1, s, [], _, _ => (s, none)
  | fuel + 1, s, b :: rest, i, argument =>
    let (c, w) := decodeRune (b :: rest)
    match s.P.lookupShort s.cmd c with
    | some r =>
      let canarg := (i + runeLen c = total) && !(s.P.opt r).optionalArg
      match parseOption E help s r canarg argument with
      | (s, some e) => (s, some e)
      | (s, none) => parseShortLoop E help total fuel s ((b :: rest).drop w) (i + w) none
    | none => (s, some (.flags .unknownFlag (B "unknown flag `" ++ encodeRune c ++ B "'")))

/-- `Parser.parseShort` -/
def parseShort (E : Env) (help : HelpFn) (s : PS) (optname : Bytes) (argument : Option Bytes) : PS × Option GoErr :=
  let (optname, argument) := if argument.isNone then splitShortConcatArg s optname else (optname, argument)
  parseShortLoop E help optname.length (optname.length + 1) s optname 0 argument

/-- `Parser.parseNonOption` (the returned flag says whether the loop must stop) -/
def parseNonOption (E : Env) (s : PS) : PS × Bool :=
  let add := s.addArgs E [s.arg]
  if s.positional ≠ [] then (add.1, add.2.isSome)
  else if (s.P.subs s.cmd) ≠ [] && s.retargs = [] then
    match s.P.lookupCmd s.cmd s.arg with
    | some sub =>
      (({ s with P := s.P.modCmd s.cmd fun c => { c with active := some sub } }).fill sub, false)
    | none =>
      -- for a required command the returned error stops the loop but is not stored in s.err
      if !(s.P.cmd s.cmd).subOpt then (add.1, true) else (add.1, add.2.isSome)
  else (add.1, add.2.isSome)

/-- behaviour of the harness' unknown-option handlers -/
def runHandler (h : Handler) (name : Bytes) (args : List Bytes) : Except GoErr (List Bytes) :=
  match h with
  | .none | .identity => .ok args
  | .dropNext => .ok (args.drop 1)
  | .prepend tok => .ok (tok :: args)
  | .fail => .error (.foreign (B "handler refused: " ++ name))
  | .swallow => .ok []   -- `return nil, nil`: everything behind the unknown option is dropped

def GoErr.isUnknownFlag : GoErr → Bool
  | .flags .unknownFlag _ => true
  | _ => false

/-- `wrapError`: a non-flags error becomes ErrUnknown with the same text -/
def wrapError : GoErr → GoErr
  | .flags t m => .flags t m
  | o => .flags .unknown o.text

/-- the policy switch after a failed option token: stop unless the failure is an unknown flag
    and either IgnoreUnknown is set or a handler is installed -/
def unknownPolicyStops (P : Parser) (e : GoErr) : Bool :=
  !e.isUnknownFlag || (!P.opts.ignoreUnknown && P.handler == .none)

/-- the `for !s.eof()` loop of `ParseArgs` -/
def parseLoop (E : Env) (help : HelpFn) : Nat → PS → PS
  | 0, s => s
  | fuel + 1, s =>
    if s.eof then s else
    let (s, arg) := s.pop
    if s.P.opts.passDoubleDash && arg = B "--" then
      (s.addArgs E s.args).1
    else if !argumentIsOption arg then
      if s.P.opts.passAfterNonOption && (s.P.lookupCmd s.cmd arg).isNone then
        match s.addArgs E [s.arg] with
        | (s, some _) => s
        | (s, none) => (s.addArgs E s.args).1
      else
        match parseNonOption E s with
        | (s, true) => s
        | (s, false) => parseLoop E help fuel s
    else
      let (_, optname, islong) := stripOptionPrefix arg
      let (optname, _, argument) := splitOption optname islong
      let (s, err) := if islong then parseLong E help s optname argument else parseShort E help s optname argument
      match err with
      | none => parseLoop E help fuel s
      | some e =>
        if unknownPolicyStops s.P e then
          { s with err := some (wrapError e) }
        else if s.P.opts.ignoreUnknown then
          parseLoop E help fuel (s.addArgs E [arg]).1
        else
          match runHandler s.P.handler optname s.args with
          | .error e => { s with err := some e, log := s.log ++ [Event.unknown optname argument s.args] }
          | .ok args => parseLoop E help fuel { s with args := args, log := s.log ++ [Event.unknown optname argument s.args] }

/-- bytewise insertion sort (`sort.Strings`) -/
def insertSorted (x : Bytes) : List Bytes → List Bytes
  | [] => [x]
  | y :: ys => if bytesLe x y then x :: y :: ys else y :: insertSorted x ys

def sortStrings (l : List Bytes) : List Bytes := l.foldr insertSorted []

/-- "a, b and c" from at least two items -/
def andList (names : List Bytes) : Bytes :=
  join (B ", ") names.dropLast ++ B " and " ++ names.getLastD []

/-- `parseState.checkRequired` -/
def checkRequired (s : PS) : PS :=
  let P := s.P
  let required := (P.activeChain.flatMap fun ci => (P.cmd ci).orefs ci).filter fun r =>
    !(P.opt r).isSet && (P.opt r).required
  if required = [] then
    let reqnames := s.positional.filterMap fun p =>
      let a := P.argAt p
      let argRequired := (!a.isRemaining && (P.cmd s.cmd).argsRequired) || a.required != -1 || a.requiredMax != -1
      if !argRequired then none
      else if a.isRemaining then
        let len : Int := match a.val with | .slice _ xs => xs.length | _ => 0
        if len < a.required then
          let arguments := if a.required > 1 then B "arguments, but got only " ++ intToDec len else B "argument"
          some (B "`" ++ a.name ++ B " (at least " ++ intToDec a.required ++ B " " ++ arguments ++ B ")`")
        else if a.requiredMax != -1 && len > a.requiredMax then
          if a.requiredMax = 0 then some (B "`" ++ a.name ++ B " (zero arguments)`")
          else
            let arguments := if a.requiredMax > 1 then B "arguments, but got " ++ intToDec len else B "argument"
            some (B "`" ++ a.name ++ B " (at most " ++ intToDec a.requiredMax ++ B " " ++ arguments ++ B ")`")
        else none
      else some (B "`" ++ a.name ++ B "`")
    match reqnames with
    | [] => s
    | [one] => { s with err := some (.flags .required (B "the required argument " ++ one ++ B " was not provided")) }
    | many => { s with err := some (.flags .required (B "the required arguments " ++ andList many ++ B " were not provided")) }
  else
    let names := sortStrings (required.map fun r => B "`" ++ P.optString r ++ B "'")
    match names with
    | [one] => { s with err := some (.flags .required (B "the required flag " ++ one ++ B " was not specified")) }
    | many => { s with err := some (.flags .required (B "the required flags " ++ andList many ++ B " were not specified")) }

/-- insertion sort of commands by name (`sort.Sort(commandList)`; equal names are
    indistinguishable in every use) -/
def sortedVisibleNames (P : Parser) (ci : Nat) : List Bytes :=
  sortStrings (((P.subs ci).filter fun s => !(P.cmd s).hidden).map fun s => (P.cmd s).name)

def orList (names : List Bytes) : Bytes :=
  join (B ", ") names.dropLast ++ B " or " ++ names.getLastD []

/-- `parseState.estimateCommand` -/
def estimateCommand (s : PS) : GoErr :=
  let cmdnames := sortedVisibleNames s.P s.cmd
  match s.retargs with
  | first :: _ =>
    let (c, l) := closestChoice first cmdnames
    let msg := B "Unknown command `" ++ first ++ B "'"
    let msg :=
      if c.length ≠ 0 && 2 * l < c.length then msg ++ B ", did you mean `" ++ c ++ B "'?"
      else match cmdnames with
        | [] => msg
        | [one] => msg ++ B ". You should use the " ++ one ++ B " command"
        | many => msg ++ B ". Please specify one command of: " ++ orList many
    .flags .unknownCommand msg
  | [] =>
    let msg := match cmdnames with
      | [] => []
      | [one] => B "Please specify the " ++ one ++ B " command"
      | many => B "Please specify one command of: " ++ orList many
    .flags .commandRequired msg

/-- behaviour of the harness' `Execute` methods -/
def executeResult (P : Parser) (ci : Nat) : Option GoErr :=
  match (P.cmd ci).commander with
  | 2 => some (.foreign (B "exec failed: " ++ (P.cmd ci).name))
  | 3 => some (.flags .help (B "help from " ++ (P.cmd ci).name))
  | _ => none

/-- the result of `ParseArgs` -/
structure ParseResult where
  P : Parser
  ret : List Bytes
  err : Option GoErr
  log : List Event

def clearDefaultsAll (E : Env) (help : HelpFn) : List ORef → PS → PS
  | [], s => s
  | r :: rs, s =>
    match optClearDefault E help s.P r s.log with
    | (P, log, none) => clearDefaultsAll E help rs { s with P := P, log := log }
    | (P, log, some e) => clearDefaultsAll E help rs { s with P := P, log := log, err := some (wrapMarshal P r e) }

/-- the preamble of `ParseArgs`: every option gets `clearReferenceBeforeSet` and a fresh default
    literal; the built-in help groups are added when HelpFlag is set -/
def prepare (E : Env) (P : Parser) : Parser :=
  let P := P.allORefs.foldl (fun P r => P.modOpt r fun o => updateDefaultLiteral E { o with clearRef := true }) P
  let P := if P.opts.helpFlag then P.addHelpGroups else P
  -- the active chain is decided by this argument vector alone (after the D26 fix)
  { P with cmds := P.cmds.map fun c => { c with active := none } }

/-- what `ParseArgs` does before it branches into completion mode: `prepare` without the reset of the
    active chain (which comes behind that branch: a completion leaves `Active` as an earlier call left it) -/
def preamble (E : Env) (P : Parser) : Parser :=
  let P := P.allORefs.foldl (fun P r => P.modOpt r fun o => updateDefaultLiteral E { o with clearRef := true }) P
  if P.opts.helpFlag then P.addHelpGroups else P

/-- the argument loop followed — when it raised no error — by defaults and the required check -/
def parsePhase (E : Env) (help : HelpFn) (P : Parser) (argv : List Bytes) : PS :=
  let s := parseLoop E help (4 * argv.length + 16) (({ P := P, args := argv } : PS).fill 0)
  if s.err.isNone then checkRequired (clearDefaultsAll E help s.P.allORefs s) else s

/-- what runs after a parse without error: command estimation, or the one invocation -/
def dispatch (s : PS) : Option GoErr × List Event :=
  let c := s.P.cmd s.cmd
  if (s.P.subs s.cmd) ≠ [] && !c.subOpt then (some (estimateCommand s), s.log)
  else if c.commander ≠ 0 then
    if s.P.cmdHandler then (executeResult s.P s.cmd, s.log ++ [.cmdHandler (some s.cmd) s.retargs, .exec s.cmd s.retargs])
    else (executeResult s.P s.cmd, s.log ++ [.exec s.cmd s.retargs])
  else if s.P.cmdHandler then (none, s.log ++ [.cmdHandler none s.retargs])
  else (none, s.log)

/-- the error to return and the events so far: the parse error if any, else `dispatch` -/
def outcome (s : PS) : Option GoErr × List Event :=
  match s.err with
  | some e => (some e, s.log)
  | none => dispatch s

def GoErr.isHelp : GoErr → Bool
  | .flags .help _ => true
  | _ => false

/-- the tail of `ParseArgs`: returned arguments and `printError` -/
def finishParse (s : PS) (oc : Option GoErr × List Event) : ParseResult :=
  match oc.1 with
  | none => { P := s.P, ret := s.retargs, err := none, log := oc.2 }
  | some e =>
    { P := s.P, ret := if e.isHelp then s.args else s.arg :: s.args, err := some e,
      log := if s.P.opts.printErrors then oc.2 ++ [.out (!e.isHelp) (e.text ++ [0x0A])] else oc.2 }

/-- `Parser.ParseArgs` outside completion mode -/
def parseArgs (E : Env) (help : HelpFn) (P : Parser) (argv : List Bytes) : ParseResult :=
  match P.internalError with
  | some e => { P := P, ret := [], err := some e, log := [] }
  | none =>
    let s := parsePhase E help (prepare E P) argv
    finishParse s (outcome s)

end GoFlags
