/-
  Semantics of the Go subset that `tools/golean` translates (DESIGN.md 2.2b).

  `tools/golean` reads /repo's sources on every check and writes `Generated/Trans.lean`: one Lean
  definition `go_<name>` per translated Go function, built from the primitives below and from
  nothing else.  The `Props/<id>/Trans.lean` theorems then state that each `go_<name>` never panics
  and computes the hand-written model's function — for every input.

  A translated function runs in `M = Option`: `none` is a Go run-time panic (index or slice
  bound out of range, negative `make`).  `int` is `Int` (no overflow: the translated functions only
  count and index), `byte` and `rune` are `Nat` (the translator refuses subtraction and negation
  at these types), `string` is `Bytes`, `[]T` is `List T`, `*string` is `Option Bytes`,
  an `error` result is `Option Unit` (only whether it is nil is kept).
-/
import GoFlags.Bytes
import GoFlags.Env
import GoFlags.Strconv

namespace GoFlags.Go
open GoFlags Bytes

abbrev M := Option

/-- `len(x)` -/
def len {α : Type} (s : List α) : Int := s.length

/-- `s[i]` on a string (a byte) or a slice -/
def idx {α : Type} (s : List α) (i : Int) : M α :=
  if 0 ≤ i then s[i.toNat]? else none

/-- `s[lo:]` -/
def sliceFrom {α : Type} (s : List α) (lo : Int) : M (List α) :=
  if 0 ≤ lo ∧ lo ≤ len s then some (s.drop lo.toNat) else none

/-- `s[:hi]` -/
def sliceTo {α : Type} (s : List α) (hi : Int) : M (List α) :=
  if 0 ≤ hi ∧ hi ≤ len s then some (s.take hi.toNat) else none

/-- `s[lo:hi]` -/
def slice {α : Type} (s : List α) (lo hi : Int) : M (List α) :=
  if 0 ≤ lo ∧ lo ≤ hi ∧ hi ≤ len s then some ((s.take hi.toNat).drop lo.toNat) else none

/-- `s[i] = v` -/
def setIdx {α : Type} (s : List α) (i : Int) (v : α) : M (List α) :=
  if 0 ≤ i ∧ i < len s then some (s.set i.toNat v) else none

/-- `make([]T, n)` with the zero value `z` -/
def make {α : Type} (n : Int) (z : α) : M (List α) :=
  if 0 ≤ n then some (List.replicate n.toNat z) else none

/-- what one pass through a loop body ends in -/
inductive LoopR (ρ σ : Type) where
  | ret (v : ρ)      -- `return v` inside the body
  | next (s : σ)     -- fell off the end of the body (or `continue`): the loop-carried variables

/-- `for i, x := range xs { body }`: `body` gets the index, the element and the loop-carried
    variables -/
def forRangeFrom {α ρ σ : Type} (body : Int → α → σ → M (LoopR ρ σ)) : List α → Int → σ → M (LoopR ρ σ)
  | [], _, st => some (.next st)
  | x :: xs, i, st =>
    match body i x st with
    | none => none
    | some (.ret v) => some (.ret v)
    | some (.next st') => forRangeFrom body xs (i + 1) st'

def forRange {α ρ σ : Type} (xs : List α) (st : σ) (body : Int → α → σ → M (LoopR ρ σ)) : M (LoopR ρ σ) :=
  forRangeFrom body xs 0 st

/-- the (byte offset, rune) pairs a `for i, c := range s` over a string visits -/
def runeSteps : Nat → Bytes → Int → List (Int × Nat)
  | 0, _, _ => []
  | _ + 1, [], _ => []
  | fuel + 1, s, off =>
    let (r, w) := decodeRune s
    (off, r) :: runeSteps fuel (s.drop w) (off + w)

/-- `for i, c := range s` over a string -/
def forRangeStr {ρ σ : Type} (s : Bytes) (st : σ) (body : Int → Nat → σ → M (LoopR ρ σ)) : M (LoopR ρ σ) :=
  forRangeFrom (fun _ (p : Int × Nat) st => body p.1 p.2 st) (runeSteps s.length s 0) 0 st

/-- `strings.HasPrefix(s, prefix)` -/
abbrev stringsHasPrefix (s pfx : Bytes) : Bool := hasPrefix s pfx

/-- `strings.Index(s, sub)` (−1: not there) -/
def stringsIndexFrom (sub : Bytes) : Bytes → Int → Int
  | [], i => if sub = [] then i else -1
  | a :: s, i => if hasPrefix (a :: s) sub then i else stringsIndexFrom sub s (i + 1)

def stringsIndex (s sub : Bytes) : Int := stringsIndexFrom sub s 0

/-- `utf8.DecodeRuneInString(s)` -/
abbrev decodeRuneInString (s : Bytes) : Nat × Int := ((decodeRune s).1, ((decodeRune s).2 : Int))

/-- `strings.TrimSpace(s)` -/
abbrev stringsTrimSpace (s : Bytes) : Bytes := trimSpace s

/-- `strconv.IsPrint(r)` -/
abbrev strconvIsPrint (E : Env) (r : Nat) : Bool := isPrintRune E r

/-- `strconv.Quote(s)` -/
abbrev strconvQuote (E : Env) (s : Bytes) : Bytes := quote E s

/-- `strconv.Unquote(s)`: (value, error); the value is "" on error -/
def strconvUnquote (s : Bytes) : Bytes × Option Unit :=
  match unquote s with
  | some v => (v, none)
  | none => ([], some ())

/-- `strings.Replace(s, old, new, -1)` for a non-empty `old` -/
def stringsReplaceAllFuel (old new : Bytes) : Nat → Bytes → Bytes
  | 0, s => s
  | _ + 1, [] => []
  | fuel + 1, a :: s =>
    if hasPrefix (a :: s) old then new ++ stringsReplaceAllFuel old new fuel ((a :: s).drop old.length)
    else a :: stringsReplaceAllFuel old new fuel s

def stringsReplaceAll (s old new : Bytes) : Bytes := stringsReplaceAllFuel old new s.length s

/-- a construct the translator does not cover: any theorem about the function stops checking -/
structure Untranslatable where
  reason : String

end GoFlags.Go
