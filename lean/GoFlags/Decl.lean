/-
  The parser's object model (group.go, command.go, option.go, arg.go) as flat tables:
  commands in pre-order with subtree sizes, and per command its groups in `eachGroup`
  (pre-order) order with subtree sizes.  The mutable per-option state lives inside the
  tables, as it does in Go.
-/
import GoFlags.Value

namespace GoFlags
open Bytes

abbrev Tag := List (Bytes × Bytes)

structure Opt where
  field : Bytes := []
  short : Nat := 0                 -- rune, 0 = none
  long : Bytes := []
  desc : Bytes := []
  dflt : List Bytes := []
  envKey : Bytes := []
  envDelim : Bytes := []
  optionalArg : Bool := false
  optionalValue : List Bytes := []
  required : Bool := false
  valueName : Bytes := []
  defaultMask : Bytes := []
  choices : List Bytes := []
  hidden : Bool := false
  ty : Ty := .sc .str
  tag : Tag := []
  cb : Nat := 0                    -- behaviour of a callback field (harness/types.go)
  -- state
  val : Val := .sc (.str [])
  isSet : Bool := false
  isSetDefault : Bool := false
  preventDefault : Bool := false
  clearRef : Bool := false
  iniQuote : Bool := false
  defaultLiteral : Bytes := []
  deriving Repr, Inhabited

structure Grp where
  shortDesc : Bytes := []
  longDesc : Bytes := []
  ns : Bytes := []
  envNs : Bytes := []
  hidden : Bool := false
  isBuiltinHelp : Bool := false
  opts : List Opt := []
  size : Nat := 1                  -- groups in this group's subtree, itself included
  deriving Repr, Inhabited

structure ArgD where
  name : Bytes := []
  desc : Bytes := []
  required : Int := -1
  requiredMax : Int := -1
  ty : Ty := .sc .str
  tag : Tag := []
  val : Val := .sc (.str [])
  deriving Repr, Inhabited

/-- `Arg.isRemaining` -/
def ArgD.isRemaining (a : ArgD) : Bool := match a.ty with | .slice _ => true | _ => false

structure Cmd where
  name : Bytes := []
  aliases : List Bytes := []
  subOpt : Bool := false           -- SubcommandsOptional
  argsRequired : Bool := false
  groups : List Grp := [{}]        -- head = the command's own group
  args : List ArgD := []
  size : Nat := 1                  -- commands in this command's subtree, itself included
  active : Option Nat := none      -- index of the Active subcommand
  hasBuiltinHelp : Bool := false
  commander : Nat := 0             -- 0: data is no Commander; k>0: Execute behaviour k
  usage : Option Bytes := none     -- data implements Usage
  uid : Nat := 0                   -- harness-side identity (creation order); not used by the model
  deriving Repr, Inhabited

/-- `Command` embeds `*Group`: its descriptions and its `Hidden` flag are those of its own group -/
def Cmd.own (c : Cmd) : Grp := c.groups.headD {}
def Cmd.hidden (c : Cmd) : Bool := c.own.hidden
def Cmd.shortDesc (c : Cmd) : Bytes := c.own.shortDesc
def Cmd.longDesc (c : Cmd) : Bytes := c.own.longDesc
def Cmd.setHidden (c : Cmd) (h : Bool) : Cmd :=
  { c with groups := match c.groups with | [] => [] | g :: r => { g with hidden := h } :: r }

/-- the unknown-option handler family of the harness -/
inductive Handler where
  | none | identity | dropNext | prepend (tok : Bytes) | fail | swallow
  deriving Repr, DecidableEq, Inhabited

inductive ErrType where
  | unknown | expectedArgument | unknownFlag | unknownGroup | marshal | help | noArgumentForBool
  | required | shortNameTooLong | duplicatedFlag | tag | commandRequired | unknownCommand
  | invalidChoice | invalidTag
  deriving Repr, DecidableEq, Inhabited

def ErrType.code : ErrType → Nat
  | .unknown => 0 | .expectedArgument => 1 | .unknownFlag => 2 | .unknownGroup => 3 | .marshal => 4
  | .help => 5 | .noArgumentForBool => 6 | .required => 7 | .shortNameTooLong => 8
  | .duplicatedFlag => 9 | .tag => 10 | .commandRequired => 11 | .unknownCommand => 12
  | .invalidChoice => 13 | .invalidTag => 14

/-- Go `error` values the library produces or passes on. -/
inductive GoErr where
  | flags (t : ErrType) (msg : Bytes)          -- *flags.Error
  | ini (file : Bytes) (line : Nat) (msg : Bytes)  -- *flags.IniError
  | foreign (msg : Bytes)                      -- any other error (strconv, user code)
  deriving Repr, DecidableEq, Inhabited

def GoErr.text : GoErr → Bytes
  | .flags _ m => m
  | .ini f l m => f ++ B ":" ++ natToDec l ++ B ": " ++ m
  | .foreign m => m

/-- Parser options (bits as in parser.go). -/
structure POpts where
  helpFlag : Bool := false
  passDoubleDash : Bool := false
  ignoreUnknown : Bool := false
  printErrors : Bool := false
  passAfterNonOption : Bool := false
  deriving Repr, DecidableEq, Inhabited

structure Parser where
  cmds : List Cmd := [{}]          -- pre-order, head = the parser's own command
  usage : Bytes := []
  opts : POpts := {}
  nsDelim : Bytes := [0x2E]
  envNsDelim : Bytes := [0x5F]
  handler : Handler := .none
  cmdHandler : Bool := false       -- a CommandHandler is installed
  internalError : Option GoErr := none
  deriving Repr, Inhabited

/-! ### pre-order navigation -/

/-- indices of the ancestors of `i` (outermost first, `i` included) given subtree sizes -/
def ancestorsOf (sizes : List Nat) (i : Nat) : List Nat :=
  (List.range (i + 1)).filter fun j => j + sizes.getD j 0 > i

def parentOf (sizes : List Nat) (i : Nat) : Option Nat :=
  ((ancestorsOf sizes i).dropLast).getLast?

/-- direct children of `i`, in order -/
def childrenOf (sizes : List Nat) (i : Nat) : List Nat :=
  (List.range' (i + 1) (sizes.getD i 1 - 1)).filter fun j => parentOf sizes j = some i

def Parser.cmdSizes (P : Parser) : List Nat := P.cmds.map (·.size)
def Cmd.grpSizes (c : Cmd) : List Nat := c.groups.map (·.size)

def Parser.cmd (P : Parser) (i : Nat) : Cmd := P.cmds.getD i {}
def Parser.subs (P : Parser) (i : Nat) : List Nat := childrenOf P.cmdSizes i
def Parser.parent (P : Parser) (i : Nat) : Option Nat := parentOf P.cmdSizes i
/-- the command chain root … i -/
def Parser.chain (P : Parser) (i : Nat) : List Nat := ancestorsOf P.cmdSizes i

/-- reference to an option: command index, group index (in the command), option index -/
structure ORef where
  c : Nat
  g : Nat
  o : Nat
  deriving Repr, DecidableEq, Inhabited

def Parser.opt (P : Parser) (r : ORef) : Opt := (((P.cmd r.c).groups.getD r.g {}).opts.getD r.o {})

def listModify {α} (l : List α) (i : Nat) (f : α → α) : List α :=
  match l, i with
  | [], _ => []
  | a :: r, 0 => f a :: r
  | a :: r, i + 1 => a :: listModify r i f

def Parser.modCmd (P : Parser) (i : Nat) (f : Cmd → Cmd) : Parser :=
  { P with cmds := listModify P.cmds i f }

def Parser.modOpt (P : Parser) (r : ORef) (f : Opt → Opt) : Parser :=
  P.modCmd r.c fun c => { c with groups := listModify c.groups r.g fun g =>
    { g with opts := listModify g.opts r.o f } }

/-- all option references of one command in `eachGroup` order -/
def Cmd.orefs (c : Cmd) (ci : Nat) : List ORef :=
  (c.groups.zipIdx).flatMap fun (g, gi) => (List.range g.opts.length).map fun oi => ⟨ci, gi, oi⟩

/-- `eachOption`: every option of every command, commands in pre-order -/
def Parser.allORefs (P : Parser) : List ORef :=
  (P.cmds.zipIdx).flatMap fun (c, ci) => c.orefs ci

/-! ### names -/

/-- group namespaces that prefix an option of group `gi` of command `ci`, outermost first -/
def Parser.nsPath (P : Parser) (ci gi : Nat) (sel : Grp → Bytes) : List Bytes :=
  let outer := ((P.chain ci).dropLast).map fun a => sel ((P.cmd a).groups.headD {})
  let c := P.cmd ci
  let inner := (ancestorsOf c.grpSizes gi).map fun j => sel (c.groups.getD j {})
  (outer ++ inner).filter (· ≠ [])

/-- `Option.LongNameWithNamespace` -/
def Parser.longNS (P : Parser) (r : ORef) : Bytes :=
  let o := P.opt r
  if o.long = [] then []
  else join P.nsDelim (P.nsPath r.c r.g (·.ns) ++ [o.long])

/-- `Option.EnvKeyWithNamespace` -/
def Parser.envKeyNS (P : Parser) (r : ORef) : Bytes :=
  let o := P.opt r
  if o.envKey = [] then []
  else join P.envNsDelim (P.nsPath r.c r.g (·.envNs) ++ [o.envKey])

/-- `Option.String()` -/
def Parser.optString (P : Parser) (r : ORef) : Bytes :=
  let o := P.opt r
  if o.short ≠ 0 then
    if o.long ≠ [] then B "-" ++ encodeRune o.short ++ B ", --" ++ P.longNS r
    else B "-" ++ encodeRune o.short
  else if o.long ≠ [] then B "--" ++ P.longNS r
  else []

/-! ### lookup (command.go `makeLookup` / `fillLookup`) -/

/-- Long-name table of the command context `ci`: ancestors are filled first and the innermost
    command last, later entries overwrite earlier ones — so: the innermost command that has a
    match wins, and within a command the last option in `eachGroup` order. -/
def Parser.lookupLong (P : Parser) (ci : Nat) (name : Bytes) : Option ORef :=
  (P.chain ci).reverse.findSome? fun a =>
    ((P.cmd a).orefs a).reverse.find? fun r => (P.opt r).long ≠ [] && P.longNS r = name

def Parser.lookupShort (P : Parser) (ci : Nat) (rune : Nat) : Option ORef :=
  (P.chain ci).reverse.findSome? fun a =>
    ((P.cmd a).orefs a).reverse.find? fun r => (P.opt r).short ≠ 0 && (P.opt r).short = rune

/-- Command table of `ci`: the last subcommand, in order, having `name` as name or alias. -/
def Parser.lookupCmd (P : Parser) (ci : Nat) (name : Bytes) : Option Nat :=
  (P.subs ci).reverse.find? fun s => (P.cmd s).name = name || (P.cmd s).aliases.contains name

/-- the active chain: root, root.Active, … (fuel = number of commands) -/
def Parser.activeChainFuel (P : Parser) : Nat → Nat → List Nat
  | 0, _ => []
  | f + 1, i => i :: match (P.cmd i).active with
    | some a => P.activeChainFuel f a
    | none => []

def Parser.activeChain (P : Parser) : List Nat := P.activeChainFuel P.cmds.length 0

end GoFlags
