/-
  Go strings as byte lists, and the handful of `strings` / `utf8` / `unicode`
  primitives go-flags uses.  Core Lean only (the driver links this file).

  Conventions (DESIGN.md 2.1): a byte is a `Nat` (< 256 on every input the driver
  feeds; theorems that need the bound say so); a rune is a `Nat`.
-/
namespace GoFlags

abbrev Bytes := List Nat

/-- `B "text"`: the UTF-8 bytes of a string literal, expanded at elaboration time into a plain
    list literal (so that the kernel can compute with message templates). -/
macro "B " s:str : term => do
  let bytes := s.getString.toUTF8.toList.map (·.toNat)
  let elems := bytes.map fun b => Lean.Syntax.mkNumLit (toString b)
  `(([$(elems.toArray),*] : List Nat))

namespace Bytes

def hasPrefix : Bytes → Bytes → Bool
  | _, [] => true
  | [], _ :: _ => false
  | a :: s, b :: p => a == b && hasPrefix s p

/-- `strings.IndexByte`. -/
def indexByte (c : Nat) : Bytes → Option Nat
  | [] => none
  | a :: s => if a = c then some 0 else (indexByte c s).map (· + 1)

/-- `strings.SplitN(s, string(c), 2)` — `(before, some after)` or `(s, none)`. -/
def cut (c : Nat) : Bytes → Bytes × Option Bytes
  | [] => ([], none)
  | a :: s =>
    if a = c then ([], some s)
    else
      let (l, r) := cut c s
      (a :: l, r)

/-- `strings.Split(s, string(c))` (always at least one piece). -/
def splitOn (c : Nat) : Bytes → List Bytes
  | [] => [[]]
  | a :: s =>
    if a = c then [] :: splitOn c s
    else
      match splitOn c s with
      | [] => [[a]]            -- unreachable: splitOn never returns []
      | p :: ps => (a :: p) :: ps

def join (sep : Bytes) : List Bytes → Bytes
  | [] => []
  | [a] => a
  | a :: rest => a ++ sep ++ join sep rest

def replicateB (n : Nat) (c : Nat) : Bytes := List.replicate n c

/-! ### UTF-8 (Go's `unicode/utf8`, exact, including invalid input) -/

def runeError : Nat := 0xFFFD

def isCont (b : Nat) : Bool := 0x80 ≤ b && b ≤ 0xBF

def lo3 (b0 : Nat) : Nat := if b0 = 0xE0 then 0xA0 else 0x80
def hi3 (b0 : Nat) : Nat := if b0 = 0xED then 0x9F else 0xBF
def lo4 (b0 : Nat) : Nat := if b0 = 0xF0 then 0x90 else 0x80
def hi4 (b0 : Nat) : Nat := if b0 = 0xF4 then 0x8F else 0xBF

/-- `utf8.DecodeRuneInString`: (rune, width). Empty ⇒ (RuneError, 0); invalid ⇒ (RuneError, 1). -/
def decodeRune : Bytes → Nat × Nat
  | [] => (runeError, 0)
  | b0 :: rest =>
    if b0 < 0x80 then (b0, 1)
    else if b0 < 0xC2 then (runeError, 1)
    else if b0 < 0xE0 then
      match rest with
      | b1 :: _ => if isCont b1 then ((b0 - 0xC0) * 64 + (b1 - 0x80), 2) else (runeError, 1)
      | _ => (runeError, 1)
    else if b0 < 0xF0 then
      match rest with
      | b1 :: b2 :: _ =>
        if lo3 b0 ≤ b1 && b1 ≤ hi3 b0 && isCont b2 then
          ((b0 - 0xE0) * 4096 + (b1 - 0x80) * 64 + (b2 - 0x80), 3)
        else (runeError, 1)
      | _ => (runeError, 1)
    else if b0 < 0xF5 then
      match rest with
      | b1 :: b2 :: b3 :: _ =>
        if lo4 b0 ≤ b1 && b1 ≤ hi4 b0 && isCont b2 && isCont b3 then
          ((b0 - 0xF0) * 262144 + (b1 - 0x80) * 4096 + (b2 - 0x80) * 64 + (b3 - 0x80), 4)
        else (runeError, 1)
      | _ => (runeError, 1)
    else (runeError, 1)

/-- `utf8.ValidRune`. -/
def validRune (r : Nat) : Bool := r < 0xD800 || (0xE000 ≤ r && r ≤ 0x10FFFF)

/-- `string(rune)` / `utf8.EncodeRune` (invalid runes encode U+FFFD). -/
def encodeRune (r : Nat) : Bytes :=
  if r < 0x80 then [r]
  else if r < 0x800 then [0xC0 + r / 64, 0x80 + r % 64]
  else if !validRune r then [0xEF, 0xBF, 0xBD]
  else if r < 0x10000 then [0xE0 + r / 4096, 0x80 + (r / 64) % 64, 0x80 + r % 64]
  else [0xF0 + r / 262144, 0x80 + (r / 4096) % 64, 0x80 + (r / 64) % 64, 0x80 + r % 64]

/-- `utf8.RuneLen` for a decoded rune (never negative on decoded runes). -/
def runeLen (r : Nat) : Nat := (encodeRune r).length

theorem decodeRune_width_pos (s : Bytes) (h : s ≠ []) : 0 < (decodeRune s).2 := by
  cases s with
  | nil => exact absurd rfl h
  | cons b0 rest =>
    unfold decodeRune
    repeat' split
    all_goals simp_all

theorem decodeRune_width_le (s : Bytes) : (decodeRune s).2 ≤ s.length := by
  cases s with
  | nil => simp [decodeRune]
  | cons b0 rest =>
    unfold decodeRune
    repeat' split
    all_goals (first | (simp; done) | (simp_all; done) | (simp_all; omega))

/-- `for _, r := range s` — the runes of a string (invalid bytes give U+FFFD each). -/
def runes (s : Bytes) : List Nat :=
  match _h : s with
  | [] => []
  | b :: t =>
    let d := decodeRune (b :: t)
    d.1 :: runes ((b :: t).drop d.2)
termination_by s.length
decreasing_by
  have := decodeRune_width_pos (b :: t) (by simp)
  simp only [List.length_drop, List.length_cons]
  omega

/-- `utf8.RuneCountInString`. -/
def runeCount (s : Bytes) : Nat := (runes s).length

/-- `utf8.ValidString`. -/
def validUtf8 (s : Bytes) : Bool :=
  match _h : s with
  | [] => true
  | b :: t =>
    let d := decodeRune (b :: t)
    if d.1 = runeError && d.2 = 1 then false
    else validUtf8 ((b :: t).drop d.2)
termination_by s.length
decreasing_by
  have := decodeRune_width_pos (b :: t) (by simp)
  simp only [List.length_drop, List.length_cons]
  omega

def encodeRunes (rs : List Nat) : Bytes := rs.flatMap encodeRune

/-! ### White space (`unicode.IsSpace`, `strings.TrimSpace`) -/

def isSpaceRune (r : Nat) : Bool :=
  r = 0x20 || (0x09 ≤ r && r ≤ 0x0D) || r = 0x85 || r = 0xA0 || r = 0x1680 ||
  (0x2000 ≤ r && r ≤ 0x200A) || r = 0x2028 || r = 0x2029 || r = 0x202F || r = 0x205F || r = 0x3000

def isAsciiSpace (b : Nat) : Bool := b = 0x20 || (0x09 ≤ b && b ≤ 0x0D)

/-- `strings.TrimLeftFunc(s, unicode.IsSpace)`. -/
def trimLeft (s : Bytes) : Bytes :=
  match _h : s with
  | [] => []
  | b :: t =>
    let d := decodeRune (b :: t)
    if isSpaceRune d.1 then trimLeft ((b :: t).drop d.2) else b :: t
termination_by s.length
decreasing_by
  have := decodeRune_width_pos (b :: t) (by simp)
  simp only [List.length_drop, List.length_cons]
  omega

/-- Multi-byte white-space runes (`unicode.IsSpace` beyond ASCII). -/
def spaceRunesMB : List Nat :=
  [0x85, 0xA0, 0x1680, 0x2000, 0x2001, 0x2002, 0x2003, 0x2004, 0x2005, 0x2006, 0x2007, 0x2008,
   0x2009, 0x200A, 0x2028, 0x2029, 0x202F, 0x205F, 0x3000]

/-- One step of `TrimRightFunc(unicode.IsSpace)` on the *reversed* string: strip one reversed
    white-space encoding (`DecodeLastRuneInString` returns a space rune iff the string ends in
    that rune's encoding, because every byte after the start byte is a continuation byte). -/
def trimRevStep (s : Bytes) : Option Bytes :=
  match s with
  | [] => none
  | b :: r =>
    if isAsciiSpace b then some r
    else
      match spaceRunesMB.find? (fun sp => hasPrefix s (encodeRune sp).reverse) with
      | some sp => some (s.drop (encodeRune sp).length)
      | none => none

def trimRevFuel : Nat → Bytes → Bytes
  | 0, s => s
  | n + 1, s =>
    match trimRevStep s with
    | some r => trimRevFuel n r
    | none => s

/-- Every step strictly shortens the string, so `s.length` steps of fuel are enough. -/
def trimRev (s : Bytes) : Bytes := trimRevFuel s.length s

def trimRight (s : Bytes) : Bytes := (trimRev s.reverse).reverse

/-- `strings.TrimSpace`. -/
def trimSpace (s : Bytes) : Bytes := trimRight (trimLeft s)

/-! ### ASCII helpers, numbers -/

def digitChar (d : Nat) : Nat := if d < 10 then 0x30 + d else 0x61 + (d - 10)

/-- `strconv.FormatUint(n, base)` for 2 ≤ base ≤ 36. -/
def natToBase (base : Nat) (n : Nat) : Bytes :=
  if _hb : base < 2 then [0x30] else
  if _h : n < base then [digitChar n]
  else natToBase base (n / base) ++ [digitChar (n % base)]
termination_by n
decreasing_by
  have : 0 < n := by omega
  exact Nat.div_lt_self this (by omega)

def natToDec (n : Nat) : Bytes := natToBase 10 n

/-- `strconv.FormatInt(v, base)`. -/
def intToBase (base : Nat) (v : Int) : Bytes :=
  if v < 0 then 0x2D :: natToBase base v.natAbs else natToBase base v.natAbs

def intToDec (v : Int) : Bytes := intToBase 10 v

/-- ASCII lower-casing of one byte. -/
def lowerByte (b : Nat) : Nat := if 0x41 ≤ b && b ≤ 0x5A then b + 0x20 else b

end Bytes
end GoFlags
