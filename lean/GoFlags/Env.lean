/-
  The oracle record: everything the model does *not* re-implement from the Go standard
  library or from user code.  Theorems either quantify over every `Env` or assume named
  laws (`Env.Laws`).  In the driver `Env` is a finite table filled by the harness from the
  real standard library (DESIGN.md 2.1, ORACLE-MISS protocol).
-/
import GoFlags.Bytes

namespace GoFlags

/-- Result of a float/duration parse: the value (IEEE bits, or nanoseconds as an `Int`
    encoded in the caller) or the error text `err.Error()`. -/
inductive PRes (α : Type) where
  | ok (v : α)
  | err (msg : Bytes)
  deriving Repr, DecidableEq, Inhabited

structure Env where
  /-- `strconv.IsPrint` for runes ≥ 0x100 (below that the model is exact). -/
  isPrintHi : Nat → Bool
  /-- `unicode.ToLower` for runes ≥ 0x80 (ASCII is exact in the model). -/
  toLowerHi : Nat → Nat
  /-- `strconv.ParseFloat(s, bits)`: IEEE-754 bit pattern of the float64 result. -/
  parseFloat : Bytes → Nat → PRes Nat
  /-- `strconv.FormatFloat(f, 'g', -1, bits)` on a float64 bit pattern. -/
  fmtFloat : Nat → Nat → Bytes
  /-- `time.ParseDuration`. -/
  parseDuration : Bytes → PRes Int
  /-- `time.Duration.String`. -/
  fmtDuration : Int → Bytes
  /-- `os.LookupEnv`. -/
  getenv : Bytes → Option Bytes

instance : Inhabited Env :=
  ⟨{ isPrintHi := fun _ => true, toLowerHi := id, parseFloat := fun _ _ => .err [],
     fmtFloat := fun _ _ => [], parseDuration := fun _ => .err [], fmtDuration := fun _ => [],
     getenv := fun _ => none }⟩

end GoFlags
