/-
  Exact models of the `strconv` functions go-flags calls on values that reach the
  properties: `Unquote` (double-quoted form — the only form go-flags ever passes),
  `Quote`, `IsPrint` (exact below U+0100, oracle above), `ParseUint`, `ParseInt`,
  `ParseBool`, `FormatInt/FormatUint` (in `Bytes`).
-/
import GoFlags.Env

namespace GoFlags
open Bytes

/-! ### IsPrint / Quote -/

def isPrintRune (E : Env) (r : Nat) : Bool :=
  if r < 0x80 then 0x20 ≤ r && r < 0x7F
  else if r < 0x100 then 0xA1 ≤ r && r != 0xAD
  else E.isPrintHi r

/-- go-flags `isPrint`: every rune of the `range` loop is printable. -/
def isPrintStr (E : Env) (s : Bytes) : Bool := (runes s).all (isPrintRune E)

def hexDigit (d : Nat) : Nat := if d < 10 then 0x30 + d else 0x61 + (d - 10)

def hexN : Nat → Nat → Bytes
  | 0, _ => []
  | n + 1, v => hexN n (v / 16) ++ [hexDigit (v % 16)]

def escapeRune (E : Env) (r : Nat) : Bytes :=
  if r = 0x22 || r = 0x5C then [0x5C, r]
  else if isPrintRune E r then encodeRune r
  else if r = 7 then B "\\a" else if r = 8 then B "\\b" else if r = 12 then B "\\f"
  else if r = 10 then B "\\n" else if r = 13 then B "\\r" else if r = 9 then B "\\t"
  else if r = 11 then B "\\v"
  else if r < 0x20 || r = 0x7F then B "\\x" ++ hexN 2 r
  else if r < 0x10000 then B "\\u" ++ hexN 4 r
  else B "\\U" ++ hexN 8 r

def quoteBody (E : Env) (s : Bytes) : Bytes :=
  match _h : s with
  | [] => []
  | b :: t =>
    let d := decodeRune (b :: t)
    if d.2 = 1 && d.1 = runeError then
      B "\\x" ++ hexN 2 b ++ quoteBody E t
    else escapeRune E d.1 ++ quoteBody E ((b :: t).drop d.2)
termination_by s.length
decreasing_by
  · simp
  · have := decodeRune_width_pos (b :: t) (by simp)
    simp only [List.length_drop, List.length_cons]; omega

/-- `strconv.Quote`. -/
def quote (E : Env) (s : Bytes) : Bytes := 0x22 :: quoteBody E s ++ [0x22]

/-- go-flags `quoteIfNeeded`. -/
def quoteIfNeeded (E : Env) (s : Bytes) : Bytes := if isPrintStr E s then s else quote E s

/-! ### Unquote (double-quoted form) -/

def unhex (c : Nat) : Option Nat :=
  if 0x30 ≤ c && c ≤ 0x39 then some (c - 0x30)
  else if 0x61 ≤ c && c ≤ 0x66 then some (c - 0x61 + 10)
  else if 0x41 ≤ c && c ≤ 0x46 then some (c - 0x41 + 10)
  else none

def unhexN : Nat → Bytes → Nat → Option (Nat × Bytes)
  | 0, s, acc => some (acc, s)
  | _ + 1, [], _ => none
  | n + 1, c :: s, acc =>
    match unhex c with
    | some x => unhexN n s (acc * 16 + x)
    | none => none

/-- The body of a double-quoted literal after the opening quote: returns the decoded bytes
    when the body is well-formed and ends with exactly one closing quote at the very end.
    (`strconv.Unquote`: any remainder after the closing quote is a syntax error.) -/
def unquoteBody : Nat → Bytes → Option Bytes
  | 0, _ => none
  | fuel + 1, s =>
    match s with
    | [] => none                                   -- missing closing quote
    | 0x22 :: rest => if rest = [] then some [] else none
    | 0x0A :: _ => none                            -- raw newline
    | 0x5C :: rest =>
      match rest with
      | [] => none
      | c :: r =>
        let simple (v : Nat) := (unquoteBody fuel r).map (v :: ·)
        if c = 0x61 then simple 7 else if c = 0x62 then simple 8 else if c = 0x66 then simple 12
        else if c = 0x6E then simple 10 else if c = 0x72 then simple 13 else if c = 0x74 then simple 9
        else if c = 0x76 then simple 11 else if c = 0x5C then simple 0x5C else if c = 0x22 then simple 0x22
        else if c = 0x78 then
          match unhexN 2 r 0 with
          | some (v, r') => (unquoteBody fuel r').map (v :: ·)
          | none => none
        else if c = 0x75 || c = 0x55 then
          match unhexN (if c = 0x75 then 4 else 8) r 0 with
          | some (v, r') =>
            if validRune v then (unquoteBody fuel r').map (encodeRune v ++ ·) else none
          | none => none
        else if 0x30 ≤ c && c ≤ 0x37 then
          match r with
          | d1 :: d2 :: r' =>
            if 0x30 ≤ d1 && d1 ≤ 0x37 && 0x30 ≤ d2 && d2 ≤ 0x37 then
              let v := (c - 0x30) * 64 + (d1 - 0x30) * 8 + (d2 - 0x30)
              if v > 255 then none else (unquoteBody fuel r').map (v :: ·)
            else none
          | _ => none
        else none
    | b :: rest =>
      if b < 0x80 then (unquoteBody fuel rest).map (b :: ·)
      else
        let d := decodeRune (b :: rest)
        -- invalid bytes decode to U+FFFD (width 1) and are re-encoded as EF BF BD
        (unquoteBody fuel ((b :: rest).drop d.2)).map (encodeRune d.1 ++ ·)

/-- `strconv.Unquote(s)` for `s` starting with `"`; `none` = `ErrSyntax`
    (error text "invalid syntax"). Strings not starting with `"` are never passed by go-flags;
    the model answers `none` for them as Go does for non-quote first bytes other than
    backquote / single quote, which the harness never generates at these call sites. -/
def unquote (s : Bytes) : Option Bytes :=
  match s with
  | 0x22 :: rest => unquoteBody (rest.length + 1) rest
  | _ => none

/-- go-flags `unquoteIfPossible`. -/
def unquoteIfPossible (s : Bytes) : Option Bytes :=
  match s with
  | 0x22 :: _ => unquote s
  | _ => some s

/-! ### Integers -/

inductive NumErr where
  | syntax | range | base (b : Int)
  deriving Repr, DecidableEq

def lower (c : Nat) : Nat := if 0x41 ≤ c && c ≤ 0x5A then c + 0x20 else c

/-- digit value of a byte in `ParseUint`'s loop (`none` = syntax error). -/
def digitVal (c : Nat) : Option Nat :=
  if 0x30 ≤ c && c ≤ 0x39 then some (c - 0x30)
  else if 0x61 ≤ lower c && lower c ≤ 0x7A then some (lower c - 0x61 + 10)
  else none

/-- `underscoreOK` (only consulted for base 0). State `i`: 0 = '^', 1 = '0', 2 = '_', 3 = '!'. -/
def underscoreLoop (hex : Bool) : Bytes → Nat → Bool
  | [], i => i != 2
  | c :: s, i =>
    if (0x30 ≤ c && c ≤ 0x39) || (hex && 0x61 ≤ lower c && lower c ≤ 0x66) then underscoreLoop hex s 1
    else if c = 0x5F then (if i != 1 then false else underscoreLoop hex s 2)
    else if i = 2 then false
    else underscoreLoop hex s 3

def underscoreOK (s : Bytes) : Bool :=
  let s := match s with
    | c :: r => if c = 0x2D || c = 0x2B then r else s
    | [] => s
  match s with
  | 0x30 :: p :: r =>
    if lower p = 0x62 || lower p = 0x6F || lower p = 0x78 then underscoreLoop (lower p = 0x78) r 1
    else underscoreLoop false s 0
  | _ => underscoreLoop false s 0

/-- The digit loop: left to right, first error wins; a range error yields `maxVal`. -/
def uintLoop (base : Nat) (base0 : Bool) (maxVal : Nat) : Bytes → Nat → Bool → Except NumErr (Nat × Bool)
  | [], n, us => .ok (n, us)
  | c :: s, n, us =>
    if c = 0x5F && base0 then uintLoop base base0 maxVal s n true
    else
      match digitVal c with
      | none => .error .syntax
      | some d =>
        if d ≥ base then .error .syntax
        else if n * base + d > maxVal then .error .range
        else uintLoop base base0 maxVal s (n * base + d) us

/-- `strconv.ParseUint(s, base, bits)`; `base` is an `Int` because the `base:` tag may hold
    any 32-bit number. -/
def parseUint (s : Bytes) (base : Int) (bits : Nat) : Except NumErr Nat :=
  if s = [] then .error .syntax else
  let maxVal := 2 ^ bits - 1
  let go (b : Nat) (base0 : Bool) (digits : Bytes) : Except NumErr Nat :=
    match uintLoop b base0 maxVal digits 0 false with
    | .error e => .error e
    | .ok (n, us) => if us && !underscoreOK s then .error .syntax else .ok n
  if 2 ≤ base && base ≤ 36 then go base.toNat false s
  else if base = 0 then
    match s with
    | 0x30 :: p :: r =>
      if r ≠ [] && lower p = 0x62 then go 2 true r
      else if r ≠ [] && lower p = 0x6F then go 8 true r
      else if r ≠ [] && lower p = 0x78 then go 16 true r
      else go 8 true (p :: r)
    | 0x30 :: r => go 8 true r
    | _ => go 10 true s
  else .error (.base base)

/-- "Pick off leading sign": (negative?, the rest) -/
def splitSign : Bytes → Bool × Bytes
  | 0x2D :: r => (true, r)
  | 0x2B :: r => (false, r)
  | s => (false, s)

/-- `strconv.ParseInt(s, base, bits)`. -/
def parseInt (s : Bytes) (base : Int) (bits : Nat) : Except NumErr Int :=
  if s = [] then .error .syntax else
  match parseUint (splitSign s).2 base bits with
  | .error e => .error e
  | .ok un =>
    let cutoff := 2 ^ (bits - 1)
    if !(splitSign s).1 && un ≥ cutoff then .error .range
    else if (splitSign s).1 && un > cutoff then .error .range
    else .ok (if (splitSign s).1 then -(un : Int) else (un : Int))

def NumErr.text : NumErr → Bytes
  | .syntax => B "invalid syntax"
  | .range => B "value out of range"
  | .base b => B "invalid base " ++ intToDec b

/-- `(*strconv.NumError).Error()`. -/
def numErrorText (E : Env) (fn : Bytes) (s : Bytes) (e : NumErr) : Bytes :=
  B "strconv." ++ fn ++ B ": parsing " ++ quote E s ++ B ": " ++ e.text

/-- `strconv.ParseBool`. -/
def parseBool (s : Bytes) : Option Bool :=
  if s = B "1" || s = B "t" || s = B "T" || s = B "TRUE" || s = B "true" || s = B "True" then some true
  else if s = B "0" || s = B "f" || s = B "F" || s = B "FALSE" || s = B "false" || s = B "False" then some false
  else none

end GoFlags
