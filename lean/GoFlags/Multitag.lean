/-
  multitag.go: the struct-tag scanner, byte-exact, with its typed error cases.
-/
import GoFlags.Strconv

namespace GoFlags
open Bytes

/-- The scanner's failure shapes (all are `ErrTag`). `%v` of a byte prints its decimal value. -/
inductive TagErr where
  | colonEnd                     -- expected `:' after key name, but got end of tag
  | colonGot (b : Nat)           -- expected `:' after key name, but got `%v'
  | quoteEnd                     -- expected `"' to start tag value at end of tag
  | quoteGot (b : Nat)           -- expected `"' to start tag value, but got `%v'
  | newline (name : Bytes)       -- unexpected newline in tag value `%v'
  | valueEnd                     -- expected end of tag value `"' at end of tag
  | malformed (name lit : Bytes) -- Malformed value of tag `%v:%v` => invalid syntax
  deriving Repr, DecidableEq

def TagErr.message (tag : Bytes) : TagErr → Bytes
  | .colonEnd => B "expected `:' after key name, but got end of tag (in `" ++ tag ++ B "`)"
  | .colonGot b => B "expected `:' after key name, but got `" ++ natToDec b ++ B "' (in `" ++ tag ++ B "`)"
  | .quoteEnd => B "expected `\"' to start tag value at end of tag (in `" ++ tag ++ B "`)"
  | .quoteGot b => B "expected `\"' to start tag value, but got `" ++ natToDec b ++ B "' (in `" ++ tag ++ B "`)"
  | .newline n => B "unexpected newline in tag value `" ++ n ++ B "' (in `" ++ tag ++ B "`)"
  | .valueEnd => B "expected end of tag value `\"' at end of tag (in `" ++ tag ++ B "`)"
  | .malformed n lit => B "Malformed value of tag `" ++ n ++ B ":" ++ lit ++ B "` => invalid syntax (in `" ++ tag ++ B "`)"

/-- key scan: stop at ' ', ':', '"' or end. Returns (key, rest starting at the stop byte). -/
def scanKey : Bytes → Bytes × Bytes
  | [] => ([], [])
  | c :: s =>
    if c = 0x20 || c = 0x3A || c = 0x22 then ([], c :: s)
    else let (k, r) := scanKey s; (c :: k, r)

/-- value scan after the opening quote: the `for i < len(v) && v[i] != '"'` loop with the
    backslash skip. Returns the raw body (without quotes) and the rest after the closing quote,
    `none` on a newline (with nothing) or `some none` … encoded as a small result type. -/
inductive ValScan where
  | ok (body rest : Bytes)
  | newline
  | eot
  deriving Repr, DecidableEq

def scanVal : Bytes → ValScan
  | [] => .eot
  | 0x22 :: r => .ok [] r
  | 0x0A :: _ => .newline
  | 0x5C :: c :: r =>
    -- `if v[i] == '\\' { i++ }; i++` : the byte after a backslash is skipped unexamined
    match scanVal r with
    | .ok b rest => .ok (0x5C :: c :: b) rest
    | e => e
  | [0x5C] => .eot
  | c :: r =>
    match scanVal r with
    | .ok b rest => .ok (c :: b) rest
    | e => e

def dropSpaces : Bytes → Bytes
  | 0x20 :: s => dropSpaces s
  | s => s

/-- `multiTag.scan`: the (key, value) pairs in order of appearance. -/
def scanTagFuel : Nat → Bytes → Except TagErr (List (Bytes × Bytes))
  | 0, _ => .ok []
  | fuel + 1, v =>
    let v := dropSpaces v
    if v = [] then .ok [] else
    let (name, r) := scanKey v
    match r with
    | [] => .error .colonEnd
    | c :: r1 =>
      if c ≠ 0x3A then .error (.colonGot c) else
      match r1 with
      | [] => .error .quoteEnd
      | q :: r2 =>
        if q ≠ 0x22 then .error (.quoteGot q) else
        match scanVal r2 with
        | .newline => .error (.newline name)
        | .eot => .error .valueEnd
        | .ok body rest =>
          let lit := 0x22 :: body ++ [0x22]
          match unquote lit with
          | none => .error (.malformed name lit)
          | some val =>
            match scanTagFuel fuel rest with
            | .ok kvs => .ok ((name, val) :: kvs)
            | .error e => .error e

def scanTag (tag : Bytes) : Except TagErr (List (Bytes × Bytes)) := scanTagFuel (tag.length + 1) tag

/-- `multiTag.GetMany`. -/
def tagGetMany (kvs : List (Bytes × Bytes)) (key : Bytes) : List Bytes :=
  (kvs.filter (·.1 = key)).map (·.2)

/-- `multiTag.Get`: the last value, or "". -/
def tagGet (kvs : List (Bytes × Bytes)) (key : Bytes) : Bytes :=
  (tagGetMany kvs key).getLastD []

end GoFlags
