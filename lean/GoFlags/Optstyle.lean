/-
  optstyle_other.go: token classification and name/argument splitting.
-/
import GoFlags.Bytes

namespace GoFlags
open Bytes

/-- `argumentStartsOption`. -/
def argumentStartsOption : Bytes → Bool
  | 0x2D :: _ => true
  | _ => false

/-- `argumentIsOption`: `-x…` with x ≠ '-', or `--y…` with y ≠ '-'. -/
def argumentIsOption : Bytes → Bool
  | 0x2D :: 0x2D :: c :: _ => c != 0x2D
  | [0x2D, 0x2D] => false
  | 0x2D :: c :: _ => c != 0x2D
  | _ => false

/-- `stripOptionPrefix`: (prefix, name, islong). -/
def stripOptionPrefix : Bytes → Bytes × Bytes × Bool
  | 0x2D :: 0x2D :: r => ([0x2D, 0x2D], r, true)
  | 0x2D :: r => ([0x2D], r, false)
  | s => ([], s, false)

/-- `splitOption` (after the D9 fix: a short option splits at `=` only directly after its
    first *character*): (name, split string, argument). -/
def splitOption (option : Bytes) (islong : Bool) : Bytes × Bytes × Option Bytes :=
  match indexByte 0x3D option with
  | none => (option, [], none)
  | some pos =>
    if islong || (pos = (decodeRune option).2) then
      (option.take pos, [0x3D], some (option.drop (pos + 1)))
    else (option, [], none)

end GoFlags
