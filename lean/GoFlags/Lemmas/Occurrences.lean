/-
  Whole command lines of option occurrences: the token `--name=V` / `--flag`, the step of the
  argument loop on such a token, and the option-level meaning of a list of occurrences
  (`setAll`: one `Option.Set` after the other).  The property theorems built on this are in
  Props/C01.lean.
-/
import GoFlags.Lemmas.Decl
import GoFlags.Props.C02
import GoFlags.Props.C01.Step
namespace GoFlags
open Bytes

/-- the token `--name=V` / `--name` -/
def longToken (name : Bytes) (arg : Option Bytes) : Bytes :=
  match arg with
  | some V => B "--" ++ name ++ 0x3D :: V
  | none => B "--" ++ name

/-- a long name as it can be typed: not empty, not starting with a dash, no `=` inside -/
def TypableLong (name : Bytes) : Prop := name ≠ [] ∧ name.head? ≠ some 0x2D ∧ 0x3D ∉ name

theorem longToken_isOption (name : Bytes) (arg : Option Bytes) (h : TypableLong name) :
    argumentIsOption (longToken name arg) = true ∧ longToken name arg ≠ B "--" := by
  obtain ⟨hne, hhd, _⟩ := h
  cases name with
  | nil => exact absurd rfl hne
  | cons c t =>
    have hc : c ≠ 0x2D := by intro e; apply hhd; simp [e]
    cases arg <;> simp [longToken, argumentIsOption, hc]

theorem longToken_split (name : Bytes) (arg : Option Bytes) (h : TypableLong name) :
    stripOptionPrefix (longToken name arg) = (B "--", (match arg with | some V => name ++ 0x3D :: V | none => name), true) ∧
    splitOption (match arg with | some V => name ++ 0x3D :: V | none => name) true =
      (name, (match arg with | some _ => [0x3D] | none => []), arg) := by
  obtain ⟨hne, hhd, heq⟩ := h
  constructor
  · cases arg <;> simp [longToken, stripOptionPrefix]
  · cases arg with
    | some V => exact C02.long_eq_splits name V heq
    | none =>
      simp only
      unfold splitOption
      have : indexByte 0x3D name = none := by
        clear hne hhd
        induction name with
        | nil => rfl
        | cons a t ih =>
          have ha : a ≠ 0x3D := by intro e; apply heq; simp [e]
          have ht : 0x3D ∉ t := by intro e; apply heq; simp [e]
          simp [indexByte, ha, ih ht]
      rw [this]

/-- **One long-option token is one `parseLong`**: the argument loop, on a token `--name=V` or
    `--name`, does what `parseLong` does with the split name and argument, then goes on (or applies
    the unknown-option policy to the error). -/
theorem parseLoop_long_token (E : Env) (help : HelpFn) (fuel : Nat) (s : PS) (name : Bytes) (arg : Option Bytes)
    (rest : List Bytes) (h : TypableLong name) (hargs : s.args = longToken name arg :: rest) :
    parseLoop E help (fuel + 1) s =
      match parseLong E help { s with arg := longToken name arg, args := rest } name arg with
      | (s', none) => parseLoop E help fuel s'
      | (s', some e) =>
        if unknownPolicyStops s'.P e then { s' with err := some (wrapError e) }
        else if s'.P.opts.ignoreUnknown then parseLoop E help fuel (s'.addArgs E [longToken name arg]).1
        else
          match runHandler s'.P.handler name s'.args with
          | .error e => { s' with err := some e, log := s'.log ++ [Event.unknown name arg s'.args] }
          | .ok args => parseLoop E help fuel { s' with args := args, log := s'.log ++ [Event.unknown name arg s'.args] } := by
  obtain ⟨hopt, hdd⟩ := longToken_isOption name arg h
  obtain ⟨hstrip, hsplit⟩ := longToken_split name arg h
  conv => lhs; unfold parseLoop
  have heof : s.eof = false := by simp [PS.eof, hargs]
  simp only [heof, Bool.false_eq_true, if_false]
  have hpop : s.pop = ({ s with arg := longToken name arg, args := rest }, longToken name arg) := by
    simp [PS.pop, hargs]
  rw [hpop]
  simp only [hdd, decide_false, Bool.and_false, Bool.false_eq_true, if_false, hopt, Bool.not_true, hstrip, hsplit, if_true]
  generalize parseLong E help { s with arg := longToken name arg, args := rest } name arg = res
  obtain ⟨s', e⟩ := res
  cases e <;> rfl

/-- what the parse state keeps when an option is applied without taking the next token -/
structure KeepsFrame (s s' : PS) : Prop where
  args : s'.args = s.args
  cmd : s'.cmd = s.cmd
  pos : s'.positional = s.positional
  ret : s'.retargs = s.retargs
  err : s'.err = s.err
  decl : SameDecl s'.P s.P

theorem parseOption_keeps (E : Env) (help : HelpFn) (s : PS) (r : ORef) (canarg : Bool) (argument : Option Bytes)
    (h : argument.isSome = true ∨ (s.P.opt r).ty.canArgument = false) :
    KeepsFrame s (parseOption E help s r canarg argument).1 := by
  have hd := parseOption_decl E help s r canarg argument
  refine ⟨?_, ?_, ?_, ?_, ?_, hd⟩ <;>
  · unfold parseOption
    simp only
    split
    · split <;> rfl
    · next hca =>
      have hsome : argument.isSome = true := by
        rcases h with h | h
        · exact h
        · simp [h] at hca
      obtain ⟨V, rfl⟩ := Option.isSome_iff_exists.mp hsome
      simp only [Option.isSome_some, Bool.true_or, if_true, takeArgument]
      split <;> rfl

theorem parseLong_keeps (E : Env) (help : HelpFn) (s : PS) (name : Bytes) (argument : Option Bytes)
    (h : argument.isSome = true ∨ ∀ r, s.P.lookupLong s.cmd name = some r → (s.P.opt r).ty.canArgument = false) :
    KeepsFrame s (parseLong E help s name argument).1 := by
  unfold parseLong
  split
  · next r hr =>
    apply parseOption_keeps
    rcases h with h | h
    · exact Or.inl h
    · exact Or.inr (h r hr)
  · exact ⟨rfl, rfl, rfl, rfl, rfl, SameDecl.refl _⟩

/-- one typed occurrence: a long name with or without an attached argument -/
abbrev Occ := Bytes × Option Bytes

def renderOccs (items : List Occ) : List Bytes := items.map fun it => longToken it.1 it.2

/-- an occurrence the theorem speaks about: a typable name of an option in scope; without an
    attached argument only for options that take none -/
def OccOK (P : Parser) (ci : Nat) (it : Occ) : Prop :=
  TypableLong it.1 ∧ ∃ r, P.lookupLong ci it.1 = some r ∧ (it.2 = none → (P.opt r).ty.canArgument = false)

theorem OccOK_of_sameDecl {P Q : Parser} (h : SameDecl P Q) (ci : Nat) (it : Occ) (hok : OccOK P ci it) : OccOK Q ci it := by
  obtain ⟨ht, r, hl, hc⟩ := hok
  refine ⟨ht, r, by rw [← h.lookupLong]; exact hl, ?_⟩
  intro hn
  have := hc hn
  have hd := h.opt r
  have e : (P.opt r).ty = (Q.opt r).ty := by
    have : (P.opt r).decl.ty = (Q.opt r).decl.ty := by rw [hd]
    exact this
  rw [← e]; exact this

/-- the occurrences applied one after the other at the level of options (`parseLong` on the split
    name and argument); stops at the first error -/
def applyOccs (E : Env) (help : HelpFn) : PS → List Occ → PS × Option GoErr
  | s, [] => (s, none)
  | s, it :: rest =>
    match parseLong E help { s with arg := longToken it.1 it.2, args := renderOccs rest } it.1 it.2 with
    | (s', none) => applyOccs E help s' rest
    | (s', some e) => (s', some e)

/-- the argument an occurrence hands to `Option.Set`: nothing for a bare flag, the attached text
    (unquoted unless the option says `unquote:"false"`) for an option that takes an argument;
    `none` = the occurrence is rejected before `Set` (an argument on a flag, bad quoting) -/
def occArg (P : Parser) (r : ORef) (a : Option Bytes) : Option (Option Bytes) :=
  match a with
  | none => some none
  | some V =>
    if (P.opt r).ty.canArgument then
      (if tagGet (P.opt r).tag (B "unquote") ≠ B "false" then unquoteIfPossible V else some V).map some
    else none

/-- an accepted occurrence is exactly one `Option.Set` on the option the name resolves to -/
theorem parseLong_accepted (E : Env) (help : HelpFn) (s : PS) (n : Bytes) (a : Option Bytes) (r : ORef)
    (hl : s.P.lookupLong s.cmd n = some r) (hc : a = none → (s.P.opt r).ty.canArgument = false)
    (hres : (parseLong E help s n a).2 = none) :
    ∃ v, occArg s.P r a = some v ∧ (optSet E help s.P r v s.log).2.2 = none ∧
      (parseLong E help s n a).1 = { s with P := (optSet E help s.P r v s.log).1, log := (optSet E help s.P r v s.log).2.1 } := by
  unfold parseLong at hres ⊢
  simp only [hl] at hres ⊢
  unfold parseOption at hres ⊢
  simp only at hres ⊢
  cases a with
  | none =>
    have hca := hc rfl
    simp only [hca, Bool.not_false, if_true, Option.isSome_none, Bool.false_eq_true, if_false] at hres ⊢
    refine ⟨none, rfl, ?_, rfl⟩
    unfold finishSet at hres
    simp only at hres
    cases h : (optSet E help s.P r none s.log).2.2 with
    | none => rfl
    | some e => rw [h] at hres; simp at hres
  | some V =>
    cases hca : (s.P.opt r).ty.canArgument with
    | false => simp [hca] at hres
    | true =>
      simp only [hca, Bool.not_true, Bool.false_eq_true, if_false, Option.isSome_some, Bool.true_or, if_true, takeArgument] at hres ⊢
      unfold occArg
      simp only [hca, if_true]
      generalize (if tagGet (s.P.opt r).tag (B "unquote") ≠ B "false" then unquoteIfPossible V else some V) = unq at hres ⊢
      cases unq with
      | none => simp at hres
      | some a' =>
        simp only at hres ⊢
        refine ⟨some a', rfl, ?_, rfl⟩
        unfold finishSet at hres
        simp only at hres
        cases h : (optSet E help s.P r (some a') s.log).2.2 with
        | none => rfl
        | some e => rw [h] at hres; simp at hres

/-- option-level meaning of a command line of occurrences: one `Option.Set` after the other, each
    on the option its name resolves to in the command context `ci` -/
def setAll (E : Env) (help : HelpFn) (ci : Nat) : Parser → List Event → List Occ → Parser × List Event
  | P, log, [] => (P, log)
  | P, log, it :: rest =>
    match P.lookupLong ci it.1 with
    | some r =>
      match occArg P r it.2 with
      | some v => setAll E help ci (optSet E help P r v log).1 (optSet E help P r v log).2.1 rest
      | none => (P, log)
    | none => (P, log)

theorem setAll_decl (E : Env) (help : HelpFn) (ci : Nat) (items : List Occ) :
    ∀ (P : Parser) (log : List Event), SameDecl (setAll E help ci P log items).1 P := by
  induction items with
  | nil => intro P log; exact SameDecl.refl _
  | cons it rest ih =>
    intro P log
    unfold setAll
    split
    · split
      · exact (ih _ _).trans (optSet_decl ..)
      · exact SameDecl.refl _
    · exact SameDecl.refl _

/-- every occurrence of the list is accepted (resolves, is not rejected before or by `Set`) -/
def Accepted (E : Env) (help : HelpFn) (ci : Nat) : Parser → List Event → List Occ → Prop
  | _, _, [] => True
  | P, log, it :: rest =>
    ∃ r v, P.lookupLong ci it.1 = some r ∧ occArg P r it.2 = some v ∧ (optSet E help P r v log).2.2 = none ∧
      Accepted E help ci (optSet E help P r v log).1 (optSet E help P r v log).2.1 rest

theorem applyOccs_accepted (E : Env) (help : HelpFn) (items : List Occ) :
    ∀ s : PS, (∀ it ∈ items, OccOK s.P s.cmd it) → (applyOccs E help s items).2 = none →
      Accepted E help s.cmd s.P s.log items := by
  induction items with
  | nil => intro s _ _; trivial
  | cons it rest ih =>
    intro s hok hres
    obtain ⟨ht, r, hl, hc⟩ := hok it (by simp)
    unfold applyOccs at hres
    let s0 : PS := { s with arg := longToken it.1 it.2, args := renderOccs rest }
    have hk := parseLong_keeps E help s0 it.1 it.2 (by
      cases h2 : it.2 with
      | some V => left; rfl
      | none =>
        right; intro r' hr'
        have : s0.P.lookupLong s0.cmd it.1 = some r := hl
        rw [this] at hr'; cases hr'; exact hc h2)
    have hacc := fun h => parseLong_accepted E help s0 it.1 it.2 r hl hc h
    change (match parseLong E help s0 it.1 it.2 with | (s', none) => applyOccs E help s' rest | (s', some e) => (s', some e)).2 = none at hres
    generalize hpl : parseLong E help s0 it.1 it.2 = res at hk hres hacc
    obtain ⟨s', e⟩ := res
    cases e with
    | some e => simp at hres
    | none =>
      simp only at hres hk hacc
      obtain ⟨v, hv, he, hs'⟩ := hacc trivial
      have hs'P : s'.P = (optSet E help s.P r v s.log).1 := by rw [hs']
      have hs'log : s'.log = (optSet E help s.P r v s.log).2.1 := by rw [hs']
      have hcmd : s'.cmd = s.cmd := hk.cmd
      have hok' : ∀ it' ∈ rest, OccOK s'.P s'.cmd it' := by
        intro it' hit'
        rw [hcmd]
        exact OccOK_of_sameDecl hk.decl.symm _ _ (hok it' (by simp [hit']))
      have := ih s' hok' hres
      rw [hs'P, hs'log, hcmd] at this
      exact ⟨r, v, hl, hv, he, this⟩

theorem setAll_append (E : Env) (help : HelpFn) (ci : Nat) (pre rest : List Occ) :
    ∀ (P : Parser) (log : List Event), Accepted E help ci P log pre →
      setAll E help ci P log (pre ++ rest) =
        setAll E help ci (setAll E help ci P log pre).1 (setAll E help ci P log pre).2 rest := by
  induction pre with
  | nil => intro P log _; rfl
  | cons it pre ih =>
    intro P log hacc
    obtain ⟨r, v, hl, hv, _, hrest⟩ := hacc
    have e1 : ∀ l, setAll E help ci P log (it :: l) =
        setAll E help ci (optSet E help P r v log).1 (optSet E help P r v log).2.1 l := by
      intro l
      conv => lhs; unfold setAll
      simp only [hl, hv]
    simp only [List.cons_append]
    rw [e1, e1]
    exact ih _ _ hrest

theorem Accepted_append (E : Env) (help : HelpFn) (ci : Nat) (pre rest : List Occ) :
    ∀ (P : Parser) (log : List Event), Accepted E help ci P log (pre ++ rest) →
      Accepted E help ci P log pre ∧
      Accepted E help ci (setAll E help ci P log pre).1 (setAll E help ci P log pre).2 rest := by
  induction pre with
  | nil => intro P log h; exact ⟨trivial, h⟩
  | cons it pre ih =>
    intro P log hacc
    obtain ⟨r, v, hl, hv, he, hrest⟩ := hacc
    obtain ⟨h1, h2⟩ := ih _ _ hrest
    refine ⟨⟨r, v, hl, hv, he, h1⟩, ?_⟩
    unfold setAll
    simp only [hl, hv]
    exact h2

/-- what an accepted `Set` with an argument leaves in a non-callback option -/
theorem optSet_accepted_val (E : Env) (help : HelpFn) (P : Parser) (r : ORef) (hr : r.valid P) (a : Bytes) (log : List Event)
    (hfun : (P.opt r).ty.isFunc = false) (hacc : (optSet E help P r (some a) log).2.2 = none) :
    ∃ v', convert E (P.opt r).tag a (P.opt r).ty (C01.startValue (P.opt r)) = .ok v' ∧
      ((optSet E help P r (some a) log).1.opt r).val = v' := by
  obtain ⟨hty, htag, hch, hset, hclr⟩ := C01.markSet_fields (P.opt r)
  have hval := C01.markSet_val (P.opt r) hfun
  unfold optSet at hacc ⊢
  simp only at hacc ⊢
  cases hbad : choiceRejected (P.opt r).markSet (some a) with
  | true => simp [hbad] at hacc
  | false =>
    simp only [hbad, hty, hfun, htag, hval, Option.getD_some, Bool.false_eq_true, if_false] at hacc ⊢
    cases hconv : convert E (P.opt r).tag a (P.opt r).ty (C01.startValue (P.opt r)) with
    | error m => simp [hconv] at hacc
    | ok v' =>
      refine ⟨v', rfl, ?_⟩
      simp only [Parser.opt_modOpt_modOpt_same _ _ _ _ hr]

theorem SameDecl.valid {P Q : Parser} (h : SameDecl P Q) (r : ORef) (hr : r.valid P) : r.valid Q := by
  unfold ORef.valid at hr ⊢
  have hlen : P.cmds.length = Q.cmds.length := by
    have : P.decl.cmds.length = Q.decl.cmds.length := by rw [h]
    simpa [Parser.decl] using this
  have hc := h.cmdDecl r.c
  have hg : (P.cmd r.c).groups.length = (Q.cmd r.c).groups.length := by
    have : (P.cmd r.c).decl.groups.length = (Q.cmd r.c).decl.groups.length := by rw [hc]
    simpa [Cmd.decl] using this
  have hgd : ((P.cmd r.c).groups.getD r.g {}).decl = ((Q.cmd r.c).groups.getD r.g {}).decl := by
    rw [← Cmd.decl_group, ← Cmd.decl_group, hc]
  have ho : ((P.cmd r.c).groups.getD r.g {}).opts.length = ((Q.cmd r.c).groups.getD r.g {}).opts.length := by
    have : ((P.cmd r.c).groups.getD r.g {}).decl.opts.length = ((Q.cmd r.c).groups.getD r.g {}).decl.opts.length := by rw [hgd]
    simpa [Grp.decl] using this
  exact ⟨hlen ▸ hr.1, hg ▸ hr.2.1, ho ▸ hr.2.2⟩

/-- the elements a slice value holds -/
def sliceElems : Val → List SVal
  | .slice _ xs => xs
  | _ => []

/-- the arguments handed to `Set` by the occurrences that name option `r`, in command-line order -/
def argsOf (P : Parser) (ci : Nat) (r : ORef) (items : List Occ) : List Bytes :=
  items.filterMap fun it =>
    if P.lookupLong ci it.1 = some r then (occArg P r it.2).join else none

theorem occArg_sameDecl {P Q : Parser} (h : SameDecl P Q) (r : ORef) (a : Option Bytes) : occArg P r a = occArg Q r a := by
  have hd := h.opt r
  have hty : (P.opt r).ty = (Q.opt r).ty := by
    have : (P.opt r).decl.ty = (Q.opt r).decl.ty := by rw [hd]
    exact this
  have htag : (P.opt r).tag = (Q.opt r).tag := by
    have : (P.opt r).decl.tag = (Q.opt r).decl.tag := by rw [hd]
    exact this
  unfold occArg
  rw [hty, htag]

theorem argsOf_sameDecl {P Q : Parser} (h : SameDecl P Q) (ci : Nat) (r : ORef) (items : List Occ) :
    argsOf P ci r items = argsOf Q ci r items := by
  unfold argsOf
  congr 1
  funext it
  rw [h.lookupLong, occArg_sameDecl h]

/-- element-wise conversion of the occurrences' arguments -/
def ConvAll (E : Env) (tag : Tag) (sc : Sc) : List Bytes → List SVal → Prop
  | [], [] => True
  | a :: as, v :: vs => convertSc E tag a sc = .ok v ∧ ConvAll E tag sc as vs
  | _, _ => False

theorem startValue_of_not_clearRef (o : Opt) (h : o.clearRef = false) : C01.startValue o = o.val := by
  unfold C01.startValue; simp [h]

end GoFlags
