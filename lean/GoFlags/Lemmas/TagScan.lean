/-
  The tag scanner against `strconv.Quote`: the scanner walks over a quoted literal up to its
  closing quote (Quote never emits a raw quote, backslash-less special or newline), and the
  conventional rendering of key/value pairs.  The property theorems are in Props/C19.lean.
-/
import GoFlags.Lemmas.Quote
import GoFlags.Multitag
set_option maxRecDepth 8192
namespace GoFlags
open Bytes


/-- a piece of a tag value the scanner walks over without stopping -/
def ScanThrough (seg : Bytes) : Prop :=
  ∀ X, scanVal (seg ++ X) = match scanVal X with
    | .ok b r => .ok (seg ++ b) r
    | e => e

theorem ScanThrough.nil : ScanThrough [] := by
  intro X; simp; cases scanVal X <;> rfl

theorem ScanThrough.append {a b : Bytes} (ha : ScanThrough a) (hb : ScanThrough b) : ScanThrough (a ++ b) := by
  intro X
  rw [List.append_assoc, ha (b ++ X), hb X]
  cases scanVal X <;> simp

theorem ScanThrough.plain (c : Nat) (h1 : c ≠ 0x22) (h2 : c ≠ 0x0A) (h3 : c ≠ 0x5C) : ScanThrough [c] := by
  intro X
  simp only [List.cons_append, List.nil_append]
  conv => lhs; unfold scanVal
  split
  · next h => simp at h
  · next h => simp at h; exact absurd h.1 h1
  · next h => simp at h; exact absurd h.1 h2
  · next h => simp at h; exact absurd h.1 h3
  · next h => simp at h; exact absurd h.1 h3
  · next c' r' _ _ _ _ h =>
    simp at h; obtain ⟨rfl, rfl⟩ := h
    cases scanVal X <;> rfl

theorem ScanThrough.escape (c : Nat) : ScanThrough [0x5C, c] := by
  intro X
  show scanVal (0x5C :: c :: X) = _
  rw [scanVal]
  cases scanVal X <;> rfl

theorem hexDigit_plain (d : Nat) (h : d < 16) : ScanThrough [hexDigit d] := by
  apply ScanThrough.plain <;> (unfold hexDigit; split <;> omega)

theorem hexN_through (n v : Nat) : ScanThrough (hexN n v) := by
  induction n generalizing v with
  | zero => exact ScanThrough.nil
  | succ n ih => exact (ih _).append (hexDigit_plain _ (Nat.mod_lt _ (by omega)))

theorem ScanThrough.bytes (l : Bytes) (h : ∀ c ∈ l, c ≠ 0x22 ∧ c ≠ 0x0A ∧ c ≠ 0x5C) : ScanThrough l := by
  induction l with
  | nil => exact ScanThrough.nil
  | cons c t ih =>
    have hc := h c (by simp)
    have : c :: t = [c] ++ t := rfl
    rw [this]
    exact (ScanThrough.plain c hc.1 hc.2.1 hc.2.2).append (ih (fun x hx => h x (by simp [hx])))

theorem escapeRune_through (E : Env) (r : Nat) : ScanThrough (escapeRune E r) := by
  unfold escapeRune
  have esc2 : ∀ c, ScanThrough (0x5C :: [c]) := fun c => ScanThrough.escape c
  have escN : ∀ (c n v : Nat), ScanThrough ([0x5C, c] ++ hexN n v) := fun c n v => (ScanThrough.escape c).append (hexN_through n v)
  split
  · exact ScanThrough.escape r
  · split
    · next hnq hp =>
      -- a printable rune other than the quote and the backslash: none of its bytes is special
      apply ScanThrough.bytes
      intro c hc
      simp only [Bool.or_eq_true, decide_eq_true_eq, not_or] at hnq
      have hnl : r ≠ 0x0A := by
        intro e; subst e; simp [isPrintRune] at hp
      refine ⟨?_, ?_, ?_⟩ <;> intro e <;> subst e
      · exact encodeRune_no_ascii r 0x22 (by decide) hnq.1 hc
      · exact encodeRune_no_ascii r 0x0A (by decide) hnl hc
      · exact encodeRune_no_ascii r 0x5C (by decide) hnq.2 hc
    · repeat' split
      all_goals first | exact ScanThrough.escape _ | exact escN _ _ _

theorem quoteBody_through (E : Env) (s : Bytes) : ScanThrough (quoteBody E s) := by
  fun_induction quoteBody E s with
  | case1 => exact ScanThrough.nil
  | case2 b t d hd ih =>
    exact (((ScanThrough.escape 0x78).append (hexN_through 2 b))).append ih
  | case3 b t d hd ih => exact (escapeRune_through E d.1).append ih

/-- the scanner reads a `strconv.Quote`d literal up to its closing quote, whatever follows -/
theorem scanVal_quoteBody (E : Env) (s rest : Bytes) :
    scanVal (quoteBody E s ++ 0x22 :: rest) = .ok (quoteBody E s) rest := by
  rw [quoteBody_through E s (0x22 :: rest)]
  simp [scanVal]

/-- a tag key as the scanner can read it back: not empty, no blank, colon or quote -/
def TagKeyOK (k : Bytes) : Prop := k ≠ [] ∧ ∀ c ∈ k, c ≠ 0x20 ∧ c ≠ 0x3A ∧ c ≠ 0x22

/-- the conventional rendering of a struct tag: `key:"quoted value"` pairs separated by blanks -/
def renderTag (E : Env) : List (Bytes × Bytes) → Bytes
  | [] => []
  | [(k, v)] => k ++ 0x3A :: quote E v
  | (k, v) :: rest => k ++ 0x3A :: quote E v ++ 0x20 :: renderTag E rest

theorem scanKey_key (k rest : Bytes) (hk : ∀ c ∈ k, c ≠ 0x20 ∧ c ≠ 0x3A ∧ c ≠ 0x22) :
    scanKey (k ++ 0x3A :: rest) = (k, 0x3A :: rest) := by
  induction k with
  | nil => simp [scanKey]
  | cons c t ih =>
    have hc := hk c (by simp)
    have ht := ih (fun x hx => hk x (by simp [hx]))
    simp only [List.cons_append, scanKey]
    have : (c = 0x20 || c = 0x3A || c = 0x22) = false := by simp [hc.1, hc.2.1, hc.2.2]
    simp only [this, Bool.false_eq_true, if_false, ht]

theorem dropSpaces_key (k rest : Bytes) (hk : TagKeyOK k) : dropSpaces (k ++ rest) = k ++ rest := by
  obtain ⟨hne, hc⟩ := hk
  cases k with
  | nil => exact absurd rfl hne
  | cons c t =>
    have := (hc c (by simp)).1
    simp only [List.cons_append]
    unfold dropSpaces
    split
    · next h => simp at h; exact absurd h.1 this
    · rfl

/-- **The tag scanner reads back what was written**: for every list of keys (without blank, colon
    or quote) and arbitrary byte-string values, scanning the conventional rendering
    `key:"quoted value" key:"…"` yields exactly those pairs, in order. -/
theorem scanTag_renderTag (E : Env) (kvs : List (Bytes × Bytes)) (hk : ∀ p ∈ kvs, TagKeyOK p.1)
    (hb : ∀ p ∈ kvs, ∀ b ∈ p.2, b < 256) :
    ∀ fuel, kvs.length < fuel → scanTagFuel fuel (renderTag E kvs) = .ok kvs := by
  induction kvs with
  | nil => intro fuel hf; cases fuel <;> simp [scanTagFuel, renderTag, dropSpaces] at hf ⊢
  | cons p rest ih =>
    intro fuel hf
    obtain ⟨k, v⟩ := p
    have hkk := hk (k, v) (by simp)
    have hvv := hb (k, v) (by simp)
    cases fuel with
    | zero => simp at hf
    | succ fuel =>
      -- the rendering starts with this pair, whatever follows
      obtain ⟨tail, htail, hrec⟩ : ∃ tail, renderTag E ((k, v) :: rest) = k ++ 0x3A :: quote E v ++ tail ∧
          scanTagFuel fuel tail = .ok rest := by
        cases rest with
        | nil => exact ⟨[], by simp [renderTag], by cases fuel <;> simp [scanTagFuel, dropSpaces]⟩
        | cons p' rest' =>
          refine ⟨0x20 :: renderTag E (p' :: rest'), by simp [renderTag], ?_⟩
          have hrest := ih (fun q hq => hk q (by simp [hq])) (fun q hq => hb q (by simp [hq])) fuel (by simp at hf ⊢; omega)
          -- the leading blank is dropped
          cases fuel with
          | zero => simp at hf
          | succ f =>
            have : scanTagFuel (f + 1) (0x20 :: renderTag E (p' :: rest')) = scanTagFuel (f + 1) (renderTag E (p' :: rest')) := by
              conv => lhs; unfold scanTagFuel
              conv => rhs; unfold scanTagFuel
              simp only [dropSpaces]
            rw [this]; exact hrest
      rw [htail]
      unfold scanTagFuel
      have hds : dropSpaces (k ++ 0x3A :: quote E v ++ tail) = k ++ 0x3A :: quote E v ++ tail := by
        have := dropSpaces_key k (0x3A :: quote E v ++ tail) hkk
        simpa using this
      simp only [hds]
      have hne : k ++ 0x3A :: quote E v ++ tail ≠ [] := by
        obtain ⟨hne, _⟩ := hkk
        cases k with
        | nil => exact absurd rfl hne
        | cons _ _ => simp
      simp only [hne, if_false]
      have hsk : scanKey (k ++ 0x3A :: quote E v ++ tail) = (k, 0x3A :: (quote E v ++ tail)) := by
        have := scanKey_key k (quote E v ++ tail) hkk.2
        simpa using this
      rw [hsk]
      simp only [ne_eq, not_true_eq_false, if_false]
      unfold quote
      simp only [List.cons_append, ne_eq, not_true_eq_false, if_false, List.append_assoc, List.nil_append]
      rw [scanVal_quoteBody E v tail]
      simp only
      have hu : unquote (0x22 :: quoteBody E v ++ [0x22]) = some v := unquote_quote E v hvv
      have hu' : unquote (0x22 :: (quoteBody E v ++ [0x22])) = some v := by simpa using hu
      rw [hu']
      simp only [hrec]

theorem renderTag_length (E : Env) (kvs : List (Bytes × Bytes)) (hk : ∀ p ∈ kvs, TagKeyOK p.1) :
    kvs.length ≤ (renderTag E kvs).length := by
  induction kvs with
  | nil => simp [renderTag]
  | cons p rest ih =>
    obtain ⟨k, v⟩ := p
    have hne : 0 < k.length := List.length_pos_iff.mpr (hk (k, v) (by simp)).1
    have ih' := ih (fun q hq => hk q (by simp [hq]))
    cases rest with
    | nil => simp [renderTag]; omega
    | cons p' rest' =>
      simp only [renderTag, List.length_append, List.length_cons] at ih' ⊢
      omega

/-- `multiTag.scan` is a left inverse of the conventional tag rendering -/
theorem scanTag_reads_back (E : Env) (kvs : List (Bytes × Bytes)) (hk : ∀ p ∈ kvs, TagKeyOK p.1)
    (hb : ∀ p ∈ kvs, ∀ b ∈ p.2, b < 256) : scanTag (renderTag E kvs) = .ok kvs := by
  unfold scanTag
  exact scanTag_renderTag E kvs hk hb _ (by have := renderTag_length E kvs hk; omega)
end GoFlags
