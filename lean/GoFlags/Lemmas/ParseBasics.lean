/-
  Basic facts about the parse model's state transformers.
-/
import GoFlags.Parse
import GoFlags.Lemmas.Tables

namespace GoFlags
open Bytes

/-- `addArgs` never touches the unread arguments, the current token, the log or the command;
    what it appends to the remaining arguments is a *suffix* of what it was given (the part the
    positionals did not take), verbatim and in order. -/
theorem addArgs_spec (E : Env) (s : PS) (as : List Bytes) :
    (s.addArgs E as).1.args = s.args ∧ (s.addArgs E as).1.arg = s.arg ∧ (s.addArgs E as).1.log = s.log ∧
    (s.addArgs E as).1.cmd = s.cmd ∧
    ∃ r, (s.addArgs E as).1.retargs = s.retargs ++ r ∧ r <:+ as := by
  fun_induction PS.addArgs E s as with
  | case1 s => exact ⟨rfl, rfl, rfl, rfl, [], by simp, List.suffix_refl _⟩
  | case2 s a as hpos => exact ⟨rfl, rfl, rfl, rfl, a :: as, rfl, List.suffix_refl _⟩
  | case3 s a as p ps hpos ad m hconv P => exact ⟨rfl, rfl, rfl, rfl, [], by simp, List.nil_suffix⟩
  | case4 s a as p ps hpos ad v hconv P ih =>
    obtain ⟨h1, h2, h3, h4, r, h5, h6⟩ := ih
    exact ⟨h1, h2, h3, h4, r, h5, List.IsSuffix.trans h6 (List.suffix_cons a as)⟩

/-- the only error `addArgs` produces is a positional argument's conversion error -/
theorem addArgs_err (E : Env) (s : PS) (as : List Bytes) (e : GoErr)
    (h : (s.addArgs E as).2 = some e) : ∃ m, e = .foreign m := by
  fun_induction PS.addArgs E s as with
  | case1 s => simp at h
  | case2 s a as hpos => simp at h
  | case3 s a as p ps hpos ad m hconv P => exact ⟨m, by simpa using h.symm⟩
  | case4 s a as p ps hpos ad v hconv P ih => exact ih h

end GoFlags

namespace GoFlags
open Bytes

/-- the static configuration of a parser: never changed by parsing -/
def Parser.cfg (P : Parser) : Handler × POpts × Bool := (P.handler, P.opts, P.cmdHandler)

@[simp] theorem Parser.modCmd_cfg (P : Parser) (i : Nat) (f : Cmd → Cmd) : (P.modCmd i f).cfg = P.cfg := rfl
@[simp] theorem Parser.modOpt_cfg (P : Parser) (r : ORef) (f : Opt → Opt) : (P.modOpt r f).cfg = P.cfg := rfl
@[simp] theorem Parser.modArg_cfg (P : Parser) (a : Nat × Nat) (f : ArgD → ArgD) : (P.modArg a f).cfg = P.cfg := rfl

theorem optCall_parser (E : Env) (help : HelpFn) (P : Parser) (r : ORef) (v : Option Bytes) (log : List Event) :
    (optCall E help P r v log).1 = P := by
  unfold optCall
  simp only
  split
  · split
    · rfl
    · split <;> rfl
  · split <;> rfl

theorem optSet_cfg (E : Env) (help : HelpFn) (P : Parser) (r : ORef) (v : Option Bytes) (log : List Event) :
    (optSet E help P r v log).1.cfg = P.cfg := by
  unfold optSet
  simp only
  cases choiceRejected (P.opt r).markSet v
  · simp only [Bool.false_eq_true, if_false]
    cases (P.opt r).markSet.ty.isFunc
    · simp only [Bool.false_eq_true, if_false]
      cases convert E (P.opt r).markSet.tag (v.getD []) (P.opt r).markSet.ty (P.opt r).markSet.val <;> simp
    · simp only [if_true]; rw [optCall_parser]; simp
  · simp

theorem setOptionalValues_cfg (E : Env) (help : HelpFn) (r : ORef) (vs : List Bytes) (P : Parser) (log : List Event) :
    (setOptionalValues E help r vs P log).1.cfg = P.cfg := by
  induction vs generalizing P log with
  | nil => simp [setOptionalValues]
  | cons v vs ih =>
    unfold setOptionalValues
    have h := optSet_cfg E help P r (some v) log
    generalize optSet E help P r (some v) log = res at h
    obtain ⟨P', log', e⟩ := res
    cases e with
    | some e => simpa using h
    | none => simp only; rw [ih]; simpa using h

/-- a transition that leaves the remaining arguments alone, may pop tokens, keeps the command
    and the static configuration -/
structure Consumes (s s' : PS) : Prop where
  ret : s'.retargs = s.retargs
  args : s'.args <:+ s.args
  cmd : s'.cmd = s.cmd
  cfg : s'.P.cfg = s.P.cfg

theorem Consumes.refl (s : PS) : Consumes s s := ⟨rfl, List.suffix_refl _, rfl, rfl⟩

theorem Consumes.trans {a b c : PS} (h1 : Consumes a b) (h2 : Consumes b c) : Consumes a c :=
  ⟨h2.ret.trans h1.ret, h2.args.trans h1.args, h2.cmd.trans h1.cmd, h2.cfg.trans h1.cfg⟩

theorem finishSet_consumes (s : PS) (r : ORef) (res : Parser × List Event × Option GoErr)
    (h : res.1.cfg = s.P.cfg) : Consumes s (finishSet s r res).1 :=
  ⟨rfl, List.suffix_refl _, rfl, h⟩

theorem pop_consumes (s : PS) : Consumes s s.pop.1 := by
  unfold PS.pop
  split
  · exact Consumes.refl s
  · next a r h => exact ⟨rfl, by simp [h], rfl, rfl⟩

theorem takeArgument_consumes (s : PS) (r : ORef) (argument : Option Bytes) :
    Consumes s (takeArgument s r argument).1 := by
  unfold takeArgument
  split
  · exact Consumes.refl s
  · have := pop_consumes s
    generalize s.pop = sp at this
    obtain ⟨s1, a⟩ := sp
    simp only
    split
    · exact this
    · split <;> exact this

theorem parseOption_consumes (E : Env) (help : HelpFn) (s : PS) (r : ORef) (canarg : Bool) (argument : Option Bytes) :
    Consumes s (parseOption E help s r canarg argument).1 := by
  unfold parseOption
  simp only
  split
  · split
    · exact Consumes.refl s
    · exact finishSet_consumes _ _ _ (optSet_cfg ..)
  · split
    · have h := takeArgument_consumes s r argument
      generalize takeArgument s r argument = ta at h
      obtain ⟨s1, a, e⟩ := ta
      cases e with
      | some e => exact h
      | none =>
        simp only
        split
        · exact h
        · exact h.trans (finishSet_consumes _ _ _ (optSet_cfg ..))
    · split
      · exact finishSet_consumes _ _ _ (by rw [setOptionalValues_cfg]; rfl)
      · exact Consumes.refl s

theorem parseLong_consumes (E : Env) (help : HelpFn) (s : PS) (name : Bytes) (argument : Option Bytes) :
    Consumes s (parseLong E help s name argument).1 := by
  unfold parseLong
  split
  · exact parseOption_consumes ..
  · exact Consumes.refl s

theorem parseShortLoop_consumes (E : Env) (help : HelpFn) (total fuel : Nat) (s : PS) (opt : Bytes) (i : Nat)
    (argument : Option Bytes) : Consumes s (parseShortLoop E help total fuel s opt i argument).1 := by
  fun_induction parseShortLoop E help total fuel s opt i argument with
  | case1 => exact Consumes.refl _
  | case2 => exact Consumes.refl _
  | case3 fuel s b rest i argument c w hd r hl canarg s' e hp =>
    have := parseOption_consumes E help s r canarg argument
    rw [hp] at this; exact this
  | case4 fuel s b rest i argument c w hd r hl canarg s' hp ih =>
    have := parseOption_consumes E help s r canarg argument
    rw [hp] at this; exact this.trans ih
  | case5 => exact Consumes.refl _

theorem parseShort_consumes (E : Env) (help : HelpFn) (s : PS) (optname : Bytes) (argument : Option Bytes) :
    Consumes s (parseShort E help s optname argument).1 := by
  unfold parseShort
  exact parseShortLoop_consumes ..

end GoFlags

namespace GoFlags
open Bytes

theorem addArgs_cfg (E : Env) (s : PS) (as : List Bytes) : (s.addArgs E as).1.P.cfg = s.P.cfg := by
  fun_induction PS.addArgs E s as with
  | case1 s => rfl
  | case2 s a as hpos => rfl
  | case3 s a as p ps hpos ad m hconv P => rfl
  | case4 s a as p ps hpos ad v hconv P ih => exact ih

/-- a transition that pops nothing and appends to the remaining arguments a suffix of `given` -/
structure Passes (s s' : PS) (given : List Bytes) : Prop where
  args : s'.args = s.args
  cfg : s'.P.cfg = s.P.cfg
  ret : ∃ r, s'.retargs = s.retargs ++ r ∧ r <:+ given

theorem addArgs_passes (E : Env) (s : PS) (as : List Bytes) : Passes s (s.addArgs E as).1 as := by
  obtain ⟨h1, _, _, _, h5⟩ := addArgs_spec E s as
  exact ⟨h1, addArgs_cfg E s as, h5⟩

theorem parseNonOption_passes (E : Env) (s : PS) : Passes s (parseNonOption E s).1 [s.arg] := by
  unfold parseNonOption
  simp only
  split
  · exact addArgs_passes E s [s.arg]
  · split
    · split
      · exact ⟨rfl, rfl, [], by simp [PS.fill], List.nil_suffix⟩
      · split <;> exact addArgs_passes E s [s.arg]
    · exact addArgs_passes E s [s.arg]

/-- unknown-option handlers that cannot invent tokens -/
def Handler.shrinks : Handler → Bool
  | .prepend _ => false
  | _ => true

theorem runHandler_suffix (h : Handler) (name : Bytes) (args args' : List Bytes) (hs : h.shrinks = true)
    (hr : runHandler h name args = .ok args') : args' <:+ args := by
  cases h <;> simp [runHandler, Handler.shrinks] at hr hs ⊢
  · subst hr; exact List.suffix_refl _
  · subst hr; exact List.suffix_refl _
  · subst hr; exact List.tail_suffix args
  · subst hr; exact List.nil_suffix

theorem sublist_of_suffix_append {a : Bytes} {r0 r rest rest' : List Bytes}
    (h0 : r0 <:+ [a]) (h1 : r.Sublist rest') (h2 : rest' <:+ rest) : (r0 ++ r).Sublist (a :: rest) := by
  have hr : r.Sublist rest := h1.trans h2.sublist
  have h0' : r0 = [] ∨ r0 = [a] := by
    obtain ⟨t, ht⟩ := h0
    cases t with
    | nil => right; simpa using ht
    | cons x t =>
      left
      have hl := congrArg List.length ht
      simp only [List.length_append, List.length_cons, List.length_nil] at hl
      have : r0.length = 0 := by omega
      exact List.length_eq_zero_iff.mp this
  rcases h0' with h | h
  · subst h; simpa using hr.cons a
  · subst h; simpa using hr.cons_cons a

/-- **Conservation.** Whatever the declarations, state and argument vector: the loop only ever
    appends to the remaining arguments tokens of the unread argument list, verbatim and in
    their original order (for every handler that cannot invent tokens). -/
theorem parseLoop_conserves (E : Env) (help : HelpFn) (fuel : Nat) (s : PS)
    (hh : s.P.cfg.1.shrinks = true) :
    ∃ r, (parseLoop E help fuel s).retargs = s.retargs ++ r ∧ r.Sublist s.args := by
  induction fuel generalizing s with
  | zero => exact ⟨[], by simp [parseLoop], List.nil_sublist _⟩
  | succ fuel ih =>
    unfold parseLoop
    split
    · exact ⟨[], by simp, List.nil_sublist _⟩
    · next hne =>
      -- pop
      cases hargs : s.args with
      | nil => simp [PS.eof, hargs] at hne
      | cons arg rest =>
        have hpop : s.pop = ({ s with arg := arg, args := rest }, arg) := by simp [PS.pop, hargs]
        simp only [hpop]
        let s1 : PS := { s with arg := arg, args := rest }
        have hs1cfg : s1.P.cfg = s.P.cfg := rfl
        split
        · -- "--" with PassDoubleDash: everything that follows is passed through
          obtain ⟨_, _, r, hr, hsuf⟩ := addArgs_passes E s1 rest
          exact ⟨r, hr, hsuf.sublist.trans (List.sublist_cons_self arg rest)⟩
        · split
          · split
            · -- PassAfterNonOption
              split
              · next s2 e hadd =>
                have p1 := addArgs_passes E s1 [arg]
                rw [hadd] at p1
                obtain ⟨_, _, r, hr, hsuf⟩ := p1
                refine ⟨r, hr, ?_⟩
                have := sublist_of_suffix_append (rest := rest) (rest' := rest) (r := []) hsuf
                  (List.nil_sublist _) (List.suffix_refl _)
                simpa using this
              · next s2 hadd =>
                have p1 := addArgs_passes E s1 [arg]
                rw [hadd] at p1
                obtain ⟨ha1, _, r0, hr0, hsuf0⟩ := p1
                obtain ⟨_, _, r, hr, hsuf⟩ := addArgs_passes E s2 s2.args
                have ha1' : s2.args = rest := ha1
                have hr0' : s2.retargs = s.retargs ++ r0 := hr0
                refine ⟨r0 ++ r, by rw [hr, hr0', List.append_assoc], ?_⟩
                exact sublist_of_suffix_append hsuf0 hsuf.sublist (by rw [ha1']; exact List.suffix_refl _)
            · -- parseNonOption
              have pn := parseNonOption_passes E s1
              generalize parseNonOption E s1 = pr at pn
              obtain ⟨s2, stop⟩ := pr
              obtain ⟨ha, hc, r0, hr0, hsuf0⟩ := pn
              have ha' : s2.args = rest := ha
              have hr0' : s2.retargs = s.retargs ++ r0 := hr0
              have hsuf0' : r0 <:+ [arg] := hsuf0
              cases stop with
              | true =>
                refine ⟨r0, hr0', ?_⟩
                have := sublist_of_suffix_append (rest := rest) (rest' := rest) (r := []) hsuf0'
                  (List.nil_sublist _) (List.suffix_refl _)
                simpa using this
              | false =>
                obtain ⟨r, hr, hsub⟩ := ih s2 (by rw [hc, hs1cfg]; exact hh)
                refine ⟨r0 ++ r, by simp only; rw [hr, hr0', List.append_assoc], ?_⟩
                exact sublist_of_suffix_append hsuf0' hsub (by rw [ha']; exact List.suffix_refl _)
          · -- an option token
            generalize hres : (if (stripOptionPrefix arg).2.2 = true then
                parseLong E help s1 (splitOption (stripOptionPrefix arg).2.1 (stripOptionPrefix arg).2.2).1
                  (splitOption (stripOptionPrefix arg).2.1 (stripOptionPrefix arg).2.2).2.2
              else
                parseShort E help s1 (splitOption (stripOptionPrefix arg).2.1 (stripOptionPrefix arg).2.2).1
                  (splitOption (stripOptionPrefix arg).2.1 (stripOptionPrefix arg).2.2).2.2) = res
            have hcons : Consumes s1 res.1 := by
              subst hres; split
              · exact parseLong_consumes ..
              · exact parseShort_consumes ..
            obtain ⟨s2, err⟩ := res
            have hshr : s2.P.cfg.1.shrinks = true := by rw [hcons.cfg, hs1cfg]; exact hh
            have hsuf2 : s2.args <:+ rest := hcons.args
            have hret2 : s2.retargs = s.retargs := hcons.ret
            cases err with
            | none =>
              obtain ⟨r, hr, hsub⟩ := ih s2 hshr
              exact ⟨r, by simp only; rw [hr, hret2], (hsub.trans hsuf2.sublist).trans (List.sublist_cons_self _ _)⟩
            | some e =>
              simp only
              cases hstop : unknownPolicyStops s2.P e
              · simp only [Bool.false_eq_true, if_false]
                cases hign : s2.P.opts.ignoreUnknown
                · -- handler
                  simp only [Bool.false_eq_true, if_false]
                  split
                  · exact ⟨[], by simp [hret2], List.nil_sublist _⟩
                  · next args' hrun =>
                    have hsuf3 := runHandler_suffix _ _ _ _ hshr hrun
                    obtain ⟨r, hr, hsub⟩ := ih { s2 with args := args', log := s2.log ++ [Event.unknown _ _ s2.args] } hshr
                    refine ⟨r, by rw [hr]; simp [hret2], ?_⟩
                    exact ((hsub.trans hsuf3.sublist).trans hsuf2.sublist).trans (List.sublist_cons_self _ _)
                · -- IgnoreUnknown: the token itself is passed through
                  simp only [if_true]
                  have p1 := addArgs_passes E s2 [arg]
                  obtain ⟨ha1, hc1, r0, hr0, hsuf0⟩ := p1
                  obtain ⟨r, hr, hsub⟩ := ih (s2.addArgs E [arg]).1 (by rw [hc1]; exact hshr)
                  refine ⟨r0 ++ r, by rw [hr, hr0, hret2, List.append_assoc], ?_⟩
                  exact sublist_of_suffix_append hsuf0 hsub (by rw [ha1]; exact hsuf2)
              · simp only [if_true]
                exact ⟨[], by simp [hret2], List.nil_sublist _⟩

/-- **The argument loop terminates**: with a handler that cannot invent tokens every iteration
    consumes at least one token and none adds any, so the loop is over after at most as many
    iterations as there are tokens — any two amounts of fuel above that give the same result. -/
theorem parseLoop_fuel_irrelevant (E : Env) (help : HelpFn) (f1 : Nat) :
    ∀ (f2 : Nat) (s : PS), s.P.cfg.1.shrinks = true → s.args.length < f1 → s.args.length < f2 →
      parseLoop E help f1 s = parseLoop E help f2 s := by
  induction f1 with
  | zero => intro f2 s _ h1 _; omega
  | succ f1 ih =>
    intro f2 s hh h1 h2
    cases f2 with
    | zero => omega
    | succ f2 =>
      conv => lhs; unfold parseLoop
      conv => rhs; unfold parseLoop
      split
      · rfl
      · next hne =>
        cases hargs : s.args with
        | nil => simp [PS.eof, hargs] at hne
        | cons arg rest =>
          have hpop : s.pop = ({ s with arg := arg, args := rest }, arg) := by simp [PS.pop, hargs]
          simp only [hpop]
          let s1 : PS := { s with arg := arg, args := rest }
          have hs1cfg : s1.P.cfg = s.P.cfg := rfl
          have hlen1 : rest.length < f1 := by rw [hargs] at h1; simp at h1; omega
          have hlen2 : rest.length < f2 := by rw [hargs] at h2; simp at h2; omega
          split
          · rfl
          · split
            · split
              · rfl
              · have pn := parseNonOption_passes E s1
                generalize parseNonOption E s1 = pr at pn
                obtain ⟨s2, stop⟩ := pr
                obtain ⟨ha, hc, _⟩ := pn
                have ha' : s2.args = rest := ha
                cases stop with
                | true => rfl
                | false =>
                  exact ih f2 s2 (by rw [hc, hs1cfg]; exact hh) (by rw [ha']; exact hlen1) (by rw [ha']; exact hlen2)
            · generalize hres : (if (stripOptionPrefix arg).2.2 = true then
                  parseLong E help s1 (splitOption (stripOptionPrefix arg).2.1 (stripOptionPrefix arg).2.2).1
                    (splitOption (stripOptionPrefix arg).2.1 (stripOptionPrefix arg).2.2).2.2
                else
                  parseShort E help s1 (splitOption (stripOptionPrefix arg).2.1 (stripOptionPrefix arg).2.2).1
                    (splitOption (stripOptionPrefix arg).2.1 (stripOptionPrefix arg).2.2).2.2) = res
              have hcons : Consumes s1 res.1 := by
                subst hres; split
                · exact parseLong_consumes ..
                · exact parseShort_consumes ..
              obtain ⟨s2, err⟩ := res
              have hshr : s2.P.cfg.1.shrinks = true := by rw [hcons.cfg, hs1cfg]; exact hh
              have hsuf2 : s2.args <:+ rest := hcons.args
              have hl2 : s2.args.length ≤ rest.length := hsuf2.length_le
              cases err with
              | none => exact ih f2 s2 hshr (by omega) (by omega)
              | some e =>
                simp only
                cases hstop : unknownPolicyStops s2.P e
                · simp only [Bool.false_eq_true, if_false]
                  cases hign : s2.P.opts.ignoreUnknown
                  · simp only [Bool.false_eq_true, if_false]
                    split
                    · rfl
                    · next args' hrun =>
                      have hsuf3 := runHandler_suffix _ _ _ _ hshr hrun
                      have hl3 : args'.length ≤ s2.args.length := hsuf3.length_le
                      exact ih f2 { s2 with args := args', log := s2.log ++ [Event.unknown _ _ s2.args] } hshr
                        (by simp only; omega) (by simp only; omega)
                  · simp only [if_true]
                    obtain ⟨ha1, hc1, _⟩ := addArgs_passes E s2 [arg]
                    exact ih f2 (s2.addArgs E [arg]).1 (by rw [hc1]; exact hshr) (by rw [ha1]; omega) (by rw [ha1]; omega)
                · rfl

end GoFlags
