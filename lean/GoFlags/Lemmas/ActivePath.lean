/-
  The `Active` links during a call: what the argument loop does to them, and the invariant that they
  spell the path of the commands selected so far.
-/
import GoFlags.Props.C06
import GoFlags.Lemmas.Decl
namespace GoFlags
open Bytes

/-! # The `Active` links during a call -/

/-- what the loop knows about command selection: every command's `Active` link, and the innermost
    command reached -/
def PS.act (s : PS) : List (Option Nat) × Nat := (s.P.cmds.map (·.active), s.cmd)

def Parser.actives (P : Parser) : List (Option Nat) := P.cmds.map (·.active)

theorem Parser.actives_modCmd (P : Parser) (i : Nat) (f : Cmd → Cmd) (h : ∀ c, (f c).active = c.active) :
    (P.modCmd i f).actives = P.actives := by
  unfold Parser.actives Parser.modCmd
  simp only
  exact listModify_map _ _ _ _ h

theorem Parser.actives_modOpt (P : Parser) (r : ORef) (f : Opt → Opt) : (P.modOpt r f).actives = P.actives := by
  unfold Parser.modOpt
  exact Parser.actives_modCmd P r.c _ (fun _ => rfl)

theorem Parser.actives_modArg (P : Parser) (a : Nat × Nat) (f : ArgD → ArgD) : (P.modArg a f).actives = P.actives := by
  unfold Parser.modArg
  exact Parser.actives_modCmd P a.1 _ (fun _ => rfl)

theorem optSet_actives (E : Env) (help : HelpFn) (P : Parser) (r : ORef) (v : Option Bytes) (log : List Event) :
    (optSet E help P r v log).1.actives = P.actives := by
  have h1 : (P.modOpt r fun _ => (P.opt r).markSet).actives = P.actives := Parser.actives_modOpt P r _
  unfold optSet
  simp only
  cases choiceRejected (P.opt r).markSet v
  · simp only [Bool.false_eq_true, if_false]
    cases (P.opt r).markSet.ty.isFunc
    · simp only [Bool.false_eq_true, if_false]
      split
      · rw [Parser.actives_modOpt]; exact h1
      · rw [Parser.actives_modOpt]; exact h1
    · simp only [if_true]; rw [optCall_parser]; exact h1
  · exact h1

theorem setOptionalValues_actives (E : Env) (help : HelpFn) (r : ORef) (vs : List Bytes) (P : Parser) (log : List Event) :
    (setOptionalValues E help r vs P log).1.actives = P.actives := by
  induction vs generalizing P log with
  | nil => rfl
  | cons v vs ih =>
    unfold setOptionalValues
    have h := optSet_actives E help P r (some v) log
    generalize optSet E help P r (some v) log = res at h
    obtain ⟨P', log', e⟩ := res
    cases e with
    | some e => exact h
    | none => exact (ih P' log').trans h

theorem takeArgument_cmd (s : PS) (r : ORef) (argument : Option Bytes) : (takeArgument s r argument).1.cmd = s.cmd := by
  unfold takeArgument
  cases argument with
  | some a => rfl
  | none =>
    simp only
    have hp : s.pop.1.cmd = s.cmd := by unfold PS.pop; split <;> rfl
    generalize s.pop = q at hp
    obtain ⟨s', a⟩ := q
    simp only at hp ⊢
    split
    · exact hp
    · split <;> exact hp

theorem parseOption_act (E : Env) (help : HelpFn) (s : PS) (r : ORef) (canarg : Bool) (argument : Option Bytes) :
    (parseOption E help s r canarg argument).1.P.actives = s.P.actives ∧
    (parseOption E help s r canarg argument).1.cmd = s.cmd := by
  unfold parseOption
  simp only
  split
  · split
    · exact ⟨rfl, rfl⟩
    · exact ⟨optSet_actives E help s.P r none s.log, rfl⟩
  · split
    · have hP := takeArgument_P s r argument
      have hc := takeArgument_cmd s r argument
      generalize takeArgument s r argument = t at hP hc
      obtain ⟨s', a, e⟩ := t
      simp only at hP hc
      cases e with
      | some e => simp only; rw [hP, hc]; exact ⟨rfl, rfl⟩
      | none =>
        simp only
        split
        · simp only; rw [hP, hc]; exact ⟨rfl, rfl⟩
        · unfold finishSet
          simp only
          refine ⟨?_, hc⟩
          rw [← hP]
          exact optSet_actives E help s'.P r (some ‹Bytes›) s'.log
    · split
      · exact ⟨(setOptionalValues_actives E help r _ _ s.log).trans (Parser.actives_modOpt _ r _), rfl⟩
      · exact ⟨rfl, rfl⟩

theorem parseLong_act (E : Env) (help : HelpFn) (s : PS) (name : Bytes) (argument : Option Bytes) :
    (parseLong E help s name argument).1.P.actives = s.P.actives ∧ (parseLong E help s name argument).1.cmd = s.cmd := by
  unfold parseLong
  split
  · exact parseOption_act ..
  · exact ⟨rfl, rfl⟩

theorem parseShortLoop_act (E : Env) (help : HelpFn) (total fuel : Nat) (s : PS) (opt : Bytes) (i : Nat)
    (argument : Option Bytes) :
    (parseShortLoop E help total fuel s opt i argument).1.P.actives = s.P.actives ∧
    (parseShortLoop E help total fuel s opt i argument).1.cmd = s.cmd := by
  induction fuel generalizing s opt i argument with
  | zero => exact ⟨rfl, rfl⟩
  | succ fuel ih =>
    cases opt with
    | nil => exact ⟨rfl, rfl⟩
    | cons b rest =>
      unfold parseShortLoop
      simp only
      split
      · next r _ =>
        have h := parseOption_act E help s r (decide (i + runeLen (decodeRune (b :: rest)).1 = total) && !(s.P.opt r).optionalArg) argument
        generalize parseOption E help s r (decide (i + runeLen (decodeRune (b :: rest)).1 = total) && !(s.P.opt r).optionalArg) argument = res at h
        obtain ⟨s', e⟩ := res
        cases e with
        | some e => exact h
        | none =>
          obtain ⟨h1, h2⟩ := ih s' ((b :: rest).drop (decodeRune (b :: rest)).2) (i + (decodeRune (b :: rest)).2) none
          exact ⟨h1.trans h.1, h2.trans h.2⟩
      · exact ⟨rfl, rfl⟩

theorem parseShort_act (E : Env) (help : HelpFn) (s : PS) (optname : Bytes) (argument : Option Bytes) :
    (parseShort E help s optname argument).1.P.actives = s.P.actives ∧ (parseShort E help s optname argument).1.cmd = s.cmd := by
  unfold parseShort
  exact parseShortLoop_act ..

theorem addArgs_act (E : Env) (s : PS) (as : List Bytes) :
    (s.addArgs E as).1.P.actives = s.P.actives ∧ (s.addArgs E as).1.cmd = s.cmd := by
  fun_induction PS.addArgs E s as with
  | case1 s => exact ⟨rfl, rfl⟩
  | case2 s a as hpos => exact ⟨rfl, rfl⟩
  | case3 s a as p ps hpos ad m hconv P => exact ⟨Parser.actives_modArg _ _ _, rfl⟩
  | case4 s a as p ps hpos ad v hconv P ih => exact ⟨ih.1.trans (Parser.actives_modArg _ _ _), ih.2⟩


theorem Parser.cmd_active (P : Parser) (i : Nat) : (P.cmd i).active = P.actives.getD i none := by
  unfold Parser.cmd Parser.actives
  have : (none : Option Nat) = ({} : Cmd).active := rfl
  rw [this, getD_map_default]

theorem Parser.actives_length (P : Parser) : P.actives.length = P.cmds.length := by simp [Parser.actives]

theorem listModify_map_comm' {α β} (l : List α) (i : Nat) (f : α → α) (f' : β → β) (g : α → β)
    (h : ∀ a, g (f a) = f' (g a)) : (listModify l i f).map g = listModify (l.map g) i f' := by
  induction l generalizing i with
  | nil => simp [listModify]
  | cons a r ih =>
    cases i with
    | zero => simp [listModify, h]
    | succ i => simp [listModify, ih]

theorem Parser.actives_setActive (P : Parser) (i sub : Nat) :
    (P.modCmd i fun c => { c with active := some sub }).actives = listModify P.actives i (fun _ => some sub) := by
  unfold Parser.actives Parser.modCmd
  simp only
  exact listModify_map_comm' _ _ _ _ _ (fun _ => rfl)

/-- the links spell `path` from its first member: consecutive members are linked, the last has no link -/
def Linked (acts : List (Option Nat)) : List Nat → Prop
  | [] => False
  | [a] => acts.getD a none = none
  | a :: b :: rest => acts.getD a none = some b ∧ Linked acts (b :: rest)

/-- the invariant of the argument loop on command selection -/
structure PathInv (acts : List (Option Nat)) (cmd : Nat) (path : List Nat) : Prop where
  head : path.head? = some 0
  last : path.getLast? = some cmd
  linked : Linked acts path
  incr : path.Pairwise (· < ·)
  inRange : ∀ x ∈ path, x < acts.length
  others : ∀ i, i ∉ path → acts.getD i none = none

theorem pairwise_le_last (path : List Nat) (c : Nat) (hp : path.Pairwise (· < ·)) (hl : path.getLast? = some c) :
    ∀ x ∈ path, x ≤ c := by
  induction path with
  | nil => simp
  | cons a t ih =>
    intro x hx
    cases t with
    | nil => simp at hl hx; omega
    | cons b t' =>
      have hl' : (b :: t').getLast? = some c := by simpa [List.getLast?_cons_cons] using hl
      have hp' := (List.pairwise_cons.mp hp).2
      rcases List.mem_cons.mp hx with rfl | hx
      · have h1 := (List.pairwise_cons.mp hp).1 b (by simp)
        have h2 := ih hp' hl' b (by simp)
        omega
      · exact ih hp' hl' x hx

theorem linked_extend (acts : List (Option Nat)) (c sub : Nat) (hc : c < acts.length) (hsub : acts.getD sub none = none)
    (hne : sub ≠ c) :
    ∀ path, Linked acts path → path.getLast? = some c → path.Pairwise (· < ·) →
      Linked (listModify acts c (fun _ => some sub)) (path ++ [sub]) := by
  intro path
  induction path with
  | nil => intro h; exact absurd h (by simp [Linked])
  | cons a t ih =>
    intro hl hlast hp
    cases t with
    | nil =>
      simp at hlast
      subst hlast
      show (listModify acts a fun _ => some sub).getD a none = some sub ∧ (listModify acts a fun _ => some sub).getD sub none = none
      exact ⟨listModify_getD_same _ _ _ _ hc, by rw [listModify_getD_ne _ _ _ _ _ (Ne.symm hne)]; exact hsub⟩
    | cons b t' =>
      have hlast' : (b :: t').getLast? = some c := by simpa [List.getLast?_cons_cons] using hlast
      have hp' := (List.pairwise_cons.mp hp).2
      obtain ⟨hab, hrest⟩ := hl
      have hac : a < c := by
        have h1 := (List.pairwise_cons.mp hp).1 b (by simp)
        have h2 := pairwise_le_last (b :: t') c hp' hlast' b (by simp)
        omega
      show (listModify acts c fun _ => some sub).getD a none = some b ∧ Linked _ ((b :: t') ++ [sub])
      refine ⟨?_, ih hrest hlast' hp'⟩
      rw [listModify_getD_ne _ _ _ _ _ (by omega)]
      exact hab

/-- selecting a subcommand extends the path by it -/
theorem PathInv.activate {acts : List (Option Nat)} {c : Nat} {path : List Nat} (h : PathInv acts c path)
    (sub : Nat) (hgt : c < sub) (hlt : sub < acts.length) :
    PathInv (listModify acts c (fun _ => some sub)) sub (path ++ [sub]) := by
  have hle := pairwise_le_last path c h.incr h.last
  have hcin : c ∈ path := List.mem_of_getLast? h.last
  have hsubnot : sub ∉ path := fun hm => by have := hle sub hm; omega
  refine ⟨?_, by simp, ?_, ?_, ?_, ?_⟩
  · cases path with
    | nil => simp at hcin
    | cons a t => simpa using h.head
  · exact linked_extend acts c sub (h.inRange c hcin) (h.others sub hsubnot) (by omega) path h.linked h.last h.incr
  · rw [List.pairwise_append]
    refine ⟨h.incr, by simp, ?_⟩
    intro x hx y hy
    simp at hy; subst hy
    have := hle x hx; omega
  · intro x hx
    rw [listModify_length]
    rcases List.mem_append.mp hx with hx | hx
    · exact h.inRange x hx
    · simp at hx; subst hx; exact hlt
  · intro i hi
    have hi1 : i ∉ path := fun hm => hi (List.mem_append.mpr (Or.inl hm))
    have hic : i ≠ c := fun e => hi1 (e ▸ hcin)
    rw [listModify_getD_ne _ _ _ _ _ (Ne.symm hic)]
    exact h.others i hi1


/-- subcommand indices lie inside the command table (true of every table the scanner builds) -/
def SubsInRange (P : Parser) : Prop := ∀ i j, j ∈ P.subs i → j < P.cmds.length

theorem mem_subs_gt (P : Parser) (i j : Nat) (h : j ∈ P.subs i) : i < j := by
  unfold Parser.subs childrenOf at h
  simp only [List.mem_filter, List.mem_range'_1] at h
  omega

theorem SameDecl.cmdsLength {P Q : Parser} (h : SameDecl P Q) : P.cmds.length = Q.cmds.length := by
  have : P.decl.cmds.length = Q.decl.cmds.length := by rw [h]
  simpa [Parser.decl] using this

theorem SubsInRange.of_sameDecl {P Q : Parser} (h : SameDecl P Q) (hq : SubsInRange Q) : SubsInRange P := by
  intro i j hj
  rw [h.subs] at hj
  rw [h.cmdsLength]
  exact hq i j hj

theorem lookupCmd_mem_subs (P : Parser) (ci : Nat) (word : Bytes) (sub : Nat) (h : P.lookupCmd ci word = some sub) :
    sub ∈ P.subs ci := by
  unfold Parser.lookupCmd at h
  simpa using List.mem_of_find?_eq_some h

/-- what a state says about command selection -/
def PS.Selected (s : PS) (path : List Nat) : Prop := PathInv s.P.actives s.cmd path

theorem PS.Selected.congr {s s' : PS} {path : List Nat} (h : s.Selected path)
    (ha : s'.P.actives = s.P.actives) (hc : s'.cmd = s.cmd) : s'.Selected path := by
  unfold PS.Selected at *
  rw [ha, hc]; exact h

theorem parseNonOption_selected (E : Env) (s : PS) (path : List Nat) (h : s.Selected path) (hr : SubsInRange s.P) :
    ∃ path', (parseNonOption E s).1.Selected path' ∧ path <+: path' := by
  have hadd := addArgs_act E s [s.arg]
  unfold parseNonOption
  simp only
  split
  · exact ⟨path, h.congr hadd.1 hadd.2, List.prefix_refl _⟩
  · split
    · split
      · next sub hl =>
        have hsub := lookupCmd_mem_subs s.P s.cmd s.arg sub hl
        have hgt := mem_subs_gt s.P s.cmd sub hsub
        have hlt : sub < s.P.actives.length := by rw [Parser.actives_length]; exact hr _ _ hsub
        refine ⟨path ++ [sub], ?_, List.prefix_append _ _⟩
        unfold PS.Selected
        show PathInv (s.P.modCmd s.cmd fun c => { c with active := some sub }).actives sub (path ++ [sub])
        rw [Parser.actives_setActive]
        exact PathInv.activate h sub hgt hlt
      · split <;> exact ⟨path, h.congr hadd.1 hadd.2, List.prefix_refl _⟩
    · exact ⟨path, h.congr hadd.1 hadd.2, List.prefix_refl _⟩

theorem pop_act (s : PS) : s.pop.1.P.actives = s.P.actives ∧ s.pop.1.cmd = s.cmd := by
  unfold PS.pop; split <;> exact ⟨rfl, rfl⟩

/-- **The argument loop keeps the `Active` links in step with the command words**: from a state
    whose links spell a path from the root to the command reached, it ends in such a state, and the
    path only grows. -/
theorem parseLoop_selected (E : Env) (help : HelpFn) (fuel : Nat) :
    ∀ (s : PS) (path : List Nat), s.Selected path → SubsInRange s.P →
      ∃ path', (parseLoop E help fuel s).Selected path' ∧ path <+: path' := by
  induction fuel with
  | zero => intro s path h _; exact ⟨path, h, List.prefix_refl _⟩
  | succ fuel ih =>
    intro s path h hr
    unfold parseLoop
    split
    · exact ⟨path, h, List.prefix_refl _⟩
    · have hp := pop_act s
      have hpP := pop_P s
      generalize s.pop = q at hp hpP
      obtain ⟨s1, arg⟩ := q
      simp only at hp hpP ⊢
      have h1 : s1.Selected path := h.congr hp.1 hp.2
      have hr1 : SubsInRange s1.P := by rw [hpP]; exact hr
      split
      · have ha := addArgs_act E s1 s1.args
        exact ⟨path, h1.congr ha.1 ha.2, List.prefix_refl _⟩
      · split
        · split
          · have ha := addArgs_act E s1 [s1.arg]
            generalize s1.addArgs E [s1.arg] = res at ha
            obtain ⟨s2, e⟩ := res
            cases e with
            | some e => exact ⟨path, h1.congr ha.1 ha.2, List.prefix_refl _⟩
            | none =>
              simp only
              have hb := addArgs_act E s2 s2.args
              exact ⟨path, (h1.congr ha.1 ha.2).congr hb.1 hb.2, List.prefix_refl _⟩
          · obtain ⟨path2, hsel2, hpre2⟩ := parseNonOption_selected E s1 path h1 hr1
            have hd2 := parseNonOption_decl E s1
            generalize parseNonOption E s1 = res at hsel2 hd2
            obtain ⟨s2, stop⟩ := res
            cases stop with
            | true => exact ⟨path2, hsel2, hpre2⟩
            | false =>
              simp only at hsel2 hd2 ⊢
              obtain ⟨path3, hsel3, hpre3⟩ := ih s2 path2 hsel2 (SubsInRange.of_sameDecl hd2 hr1)
              exact ⟨path3, hsel3, hpre2.trans hpre3⟩
        · generalize hso : stripOptionPrefix arg = so
          obtain ⟨pfx, optname0, islong⟩ := so
          simp only
          generalize hsp : splitOption optname0 islong = sp
          obtain ⟨optname, split', argument⟩ := sp
          simp only
          have hact : (if islong = true then parseLong E help s1 optname argument else parseShort E help s1 optname argument).1.P.actives = s1.P.actives ∧
              (if islong = true then parseLong E help s1 optname argument else parseShort E help s1 optname argument).1.cmd = s1.cmd := by
            split
            · exact parseLong_act ..
            · exact parseShort_act ..
          have hdec : SameDecl (if islong = true then parseLong E help s1 optname argument else parseShort E help s1 optname argument).1.P s1.P := by
            split
            · exact parseLong_decl ..
            · exact parseShort_decl ..
          generalize (if islong = true then parseLong E help s1 optname argument else parseShort E help s1 optname argument) = res at hact hdec
          obtain ⟨s2, err⟩ := res
          simp only at hact hdec ⊢
          have h2 : s2.Selected path := h1.congr hact.1 hact.2
          have hr2 : SubsInRange s2.P := SubsInRange.of_sameDecl hdec hr1
          cases err with
          | none => exact ih s2 path h2 hr2
          | some e =>
            simp only
            split
            · exact ⟨path, h2, List.prefix_refl _⟩
            · split
              · have ha := addArgs_act E s2 [arg]
                exact ih _ path (h2.congr ha.1 ha.2) (SubsInRange.of_sameDecl (addArgs_decl E s2 [arg]) hr2)
              · split
                · exact ⟨path, h2, List.prefix_refl _⟩
                · exact ih _ path h2 hr2


theorem optSetDefault_actives (E : Env) (help : HelpFn) (P : Parser) (r : ORef) (v : Option Bytes) (log : List Event) :
    (optSetDefault E help P r v log).1.actives = P.actives := by
  unfold optSetDefault
  split
  · rfl
  · have h := optSet_actives E help P r v log
    generalize optSet E help P r v log = res at h
    obtain ⟨P', l', e⟩ := res
    cases e with
    | some e => exact h
    | none => simp only; rw [Parser.actives_modOpt]; exact h

theorem setDefaults_actives (E : Env) (help : HelpFn) (r : ORef) (ds : List Bytes) (P : Parser) (log : List Event) :
    (setDefaults E help r ds P log).1.actives = P.actives := by
  induction ds generalizing P log with
  | nil => rfl
  | cons d ds ih =>
    unfold setDefaults
    have h := optSetDefault_actives E help P r (some d) log
    generalize optSetDefault E help P r (some d) log = res at h
    obtain ⟨P', l', e⟩ := res
    cases e with
    | some e => exact h
    | none => exact (ih P' l').trans h

theorem optClearDefault_actives (E : Env) (help : HelpFn) (P : Parser) (r : ORef) (log : List Event) :
    (optClearDefault E help P r log).1.actives = P.actives := by
  unfold optClearDefault
  split
  · rfl
  · simp only
    split
    · rw [setDefaults_actives, Parser.actives_modOpt, Parser.actives_modOpt]
    · split
      · rw [Parser.actives_modOpt, Parser.actives_modOpt]
      · rw [Parser.actives_modOpt]

theorem clearDefaultsAll_act (E : Env) (help : HelpFn) (rs : List ORef) (s : PS) :
    (clearDefaultsAll E help rs s).P.actives = s.P.actives ∧ (clearDefaultsAll E help rs s).cmd = s.cmd := by
  induction rs generalizing s with
  | nil => exact ⟨rfl, rfl⟩
  | cons r rs ih =>
    unfold clearDefaultsAll
    have h := optClearDefault_actives E help s.P r s.log
    generalize optClearDefault E help s.P r s.log = res at h
    obtain ⟨P', l', e⟩ := res
    cases e with
    | none =>
      simp only
      obtain ⟨h1, h2⟩ := ih { s with P := P', log := l' }
      exact ⟨h1.trans h, h2⟩
    | some e =>
      simp only
      obtain ⟨h1, h2⟩ := ih { s with P := P', log := l', err := some (wrapMarshal P' r e) }
      exact ⟨h1.trans h, h2⟩

theorem checkRequired_act (s : PS) : (checkRequired s).P = s.P ∧ (checkRequired s).cmd = s.cmd := by
  rw [C06.checkRequired_eq]
  split
  · split <;> exact ⟨rfl, rfl⟩
  · split <;> exact ⟨rfl, rfl⟩

/-- following the links from the head of a linked path gives the path -/
theorem activeChainFuel_linked (P : Parser) : ∀ (path : List Nat) (a : Nat) (fuel : Nat),
    Linked P.actives (a :: path) → path.length < fuel → P.activeChainFuel fuel a = a :: path := by
  intro path
  induction path with
  | nil =>
    intro a fuel hl hf
    cases fuel with
    | zero => simp at hf
    | succ f =>
      unfold Parser.activeChainFuel
      have : (P.cmd a).active = none := by rw [Parser.cmd_active]; exact hl
      rw [this]
  | cons b t ih =>
    intro a fuel hl hf
    cases fuel with
    | zero => simp at hf
    | succ f =>
      obtain ⟨hab, hrest⟩ := hl
      unfold Parser.activeChainFuel
      have : (P.cmd a).active = some b := by rw [Parser.cmd_active]; exact hab
      rw [this]
      simp only
      rw [ih b f hrest (by simp at hf; omega)]

theorem increasing_length (n : Nat) : ∀ (l : List Nat) (m : Nat), l.Pairwise (· < ·) → (∀ x ∈ l, m ≤ x ∧ x < n) → l.length ≤ n - m := by
  intro l
  induction l with
  | nil => intro m _ _; simp
  | cons a t ih =>
    intro m hp hall
    have ha := hall a (by simp)
    have hp' := List.pairwise_cons.mp hp
    have := ih (a + 1) hp'.2 (by
      intro x hx
      have h1 := hp'.1 x hx
      have h2 := hall x (by simp [hx])
      omega)
    simp only [List.length_cons]
    omega

/-- a parser whose links spell a path from the root has that path as its active chain -/
theorem activeChain_of_selected (s : PS) (path : List Nat) (h : s.Selected path) : s.P.activeChain = path := by
  unfold Parser.activeChain
  cases path with
  | nil => exact absurd h.linked (by simp [Linked])
  | cons a t =>
    have ha : a = 0 := by simpa using h.head
    subst ha
    apply activeChainFuel_linked s.P t 0 _ h.linked
    have := increasing_length s.P.actives.length (0 :: t) 0 h.incr (fun x hx => ⟨Nat.zero_le _, h.inRange x hx⟩)
    rw [Parser.actives_length] at this
    simp only [List.length_cons] at this
    omega


theorem Parser.cmdSizes_modCmd (P : Parser) (i : Nat) (f : Cmd → Cmd) (h : ∀ c, (f c).size = c.size) :
    (P.modCmd i f).cmdSizes = P.cmdSizes := by
  unfold Parser.cmdSizes Parser.modCmd
  simp only
  exact listModify_map _ _ _ _ h

theorem foldl_modOpt_cmdSizes (g : Opt → Opt) (rs : List ORef) (P : Parser) :
    (rs.foldl (fun P r => P.modOpt r g) P).cmdSizes = P.cmdSizes := by
  induction rs generalizing P with
  | nil => rfl
  | cons r rs ih =>
    simp only [List.foldl_cons]
    rw [ih]
    unfold Parser.modOpt
    exact Parser.cmdSizes_modCmd P r.c _ (fun _ => rfl)

theorem prepare_cmdSizes (E : Env) (P : Parser) : (prepare E P).cmdSizes = P.cmdSizes := by
  unfold prepare
  simp only
  have h1 := foldl_modOpt_cmdSizes (fun o => updateDefaultLiteral E { o with clearRef := true }) P.allORefs P
  generalize P.allORefs.foldl (fun P r => P.modOpt r fun o => updateDefaultLiteral E { o with clearRef := true }) P = P1 at h1
  have h2 : (if P1.opts.helpFlag = true then P1.addHelpGroups else P1).cmdSizes = P1.cmdSizes := by
    split
    · unfold Parser.addHelpGroups Parser.cmdSizes
      simp only [List.map_map]
      apply List.map_congr_left
      intro c _
      simp only [Function.comp]
      split <;> rfl
    · rfl
  rw [← h1, ← h2]
  unfold Parser.cmdSizes
  simp [List.map_map, Function.comp_def]

theorem prepare_actives (E : Env) (P : Parser) (i : Nat) : (prepare E P).actives.getD i none = none := by
  unfold prepare Parser.actives
  simp only [List.map_map, Function.comp_def]
  rw [List.getD_eq_getElem?_getD, List.getElem?_map]
  generalize (List.foldl (fun P r => P.modOpt r fun o => updateDefaultLiteral E { o with clearRef := true }) P P.allORefs) = P1
  generalize (if P1.opts.helpFlag = true then P1.addHelpGroups else P1) = P2
  cases P2.cmds[i]? <;> rfl

end GoFlags
