/-
  Command lines that interleave option occurrences and plain words: the argument loop as a fold of
  the per-token step, and positional binding as something options cannot disturb.
-/
import GoFlags.Lemmas.Occurrences
namespace GoFlags
open Bytes

/-! # Command lines that interleave option occurrences and plain words -/

/-- two parsers whose positional-argument tables (declarations and stored values) are the same -/
def SameArgs (P Q : Parser) : Prop := P.cmds.length = Q.cmds.length ∧ ∀ i, (P.cmd i).args = (Q.cmd i).args

theorem SameArgs.refl (P : Parser) : SameArgs P P := ⟨rfl, fun _ => rfl⟩
theorem SameArgs.symm {P Q : Parser} (h : SameArgs P Q) : SameArgs Q P := ⟨h.1.symm, fun i => (h.2 i).symm⟩
theorem SameArgs.trans {P Q R : Parser} (h1 : SameArgs P Q) (h2 : SameArgs Q R) : SameArgs P R :=
  ⟨h1.1.trans h2.1, fun i => (h1.2 i).trans (h2.2 i)⟩

theorem SameArgs.argAt {P Q : Parser} (h : SameArgs P Q) (a : Nat × Nat) : P.argAt a = Q.argAt a := by
  unfold Parser.argAt; rw [h.2]

theorem Parser.modCmd_length (P : Parser) (i : Nat) (f : Cmd → Cmd) : (P.modCmd i f).cmds.length = P.cmds.length := by
  unfold Parser.modCmd; simp [listModify_length]

/-- writing an option leaves the positional tables alone -/
theorem SameArgs.modOpt (P : Parser) (r : ORef) (f : Opt → Opt) : SameArgs (P.modOpt r f) P := by
  unfold Parser.modOpt
  refine ⟨Parser.modCmd_length _ _ _, ?_⟩
  intro i
  by_cases hi : r.c = i
  · by_cases hl : r.c < P.cmds.length
    · rw [← hi, Parser.cmd_modCmd_same P r.c _ hl]
    · rw [Parser.modCmd_of_le P r.c _ (by omega)]
  · rw [Parser.cmd_modCmd_ne P r.c i _ hi]

/-- writing a positional field acts on the positional tables only -/
theorem SameArgs.modArg {P Q : Parser} (h : SameArgs P Q) (a : Nat × Nat) (f : ArgD → ArgD) :
    SameArgs (P.modArg a f) (Q.modArg a f) := by
  unfold Parser.modArg
  refine ⟨by rw [Parser.modCmd_length, Parser.modCmd_length]; exact h.1, ?_⟩
  intro i
  by_cases hi : a.1 = i
  · by_cases hl : a.1 < P.cmds.length
    · rw [← hi, Parser.cmd_modCmd_same P a.1 _ hl, Parser.cmd_modCmd_same Q a.1 _ (by rw [← h.1]; exact hl)]
      simp only; rw [h.2]
    · rw [Parser.modCmd_of_le P a.1 _ (by omega), Parser.modCmd_of_le Q a.1 _ (by rw [← h.1]; omega)]
      exact h.2 i
  · rw [Parser.cmd_modCmd_ne P a.1 i _ hi, Parser.cmd_modCmd_ne Q a.1 i _ hi]; exact h.2 i

theorem optSet_args (E : Env) (help : HelpFn) (P : Parser) (r : ORef) (v : Option Bytes) (log : List Event) :
    SameArgs (optSet E help P r v log).1 P := by
  have h1 : SameArgs (P.modOpt r fun _ => (P.opt r).markSet) P := SameArgs.modOpt P r _
  unfold optSet
  simp only
  cases choiceRejected (P.opt r).markSet v
  · simp only [Bool.false_eq_true, if_false]
    cases (P.opt r).markSet.ty.isFunc
    · simp only [Bool.false_eq_true, if_false]
      split
      · exact (SameArgs.modOpt _ r _).trans h1
      · exact (SameArgs.modOpt _ r _).trans h1
    · simp only [if_true]; rw [optCall_parser]; exact h1
  · exact h1

theorem setOptionalValues_args (E : Env) (help : HelpFn) (r : ORef) (vs : List Bytes) (P : Parser) (log : List Event) :
    SameArgs (setOptionalValues E help r vs P log).1 P := by
  induction vs generalizing P log with
  | nil => exact SameArgs.refl _
  | cons v vs ih =>
    unfold setOptionalValues
    have h := optSet_args E help P r (some v) log
    generalize optSet E help P r (some v) log = res at h
    obtain ⟨P', log', e⟩ := res
    cases e with
    | some e => exact h
    | none => exact (ih P' log').trans h

theorem parseOption_args (E : Env) (help : HelpFn) (s : PS) (r : ORef) (canarg : Bool) (argument : Option Bytes) :
    SameArgs (parseOption E help s r canarg argument).1.P s.P := by
  unfold parseOption
  simp only
  split
  · split
    · exact SameArgs.refl _
    · exact optSet_args E help s.P r none s.log
  · split
    · have hP := takeArgument_P s r argument
      generalize takeArgument s r argument = t at hP
      obtain ⟨s', a, e⟩ := t
      simp only at hP
      cases e with
      | some e => simp only; rw [hP]; exact SameArgs.refl _
      | none =>
        simp only
        split
        · simp only; rw [hP]; exact SameArgs.refl _
        · have := optSet_args E help s'.P r (some ‹Bytes›) s'.log
          unfold finishSet
          simp only
          rw [← hP]
          exact this
    · split
      · exact (setOptionalValues_args E help r _ _ s.log).trans (SameArgs.modOpt _ r _)
      · exact SameArgs.refl _

/-- **An option occurrence never touches a positional field.** -/
theorem parseLong_args (E : Env) (help : HelpFn) (s : PS) (name : Bytes) (argument : Option Bytes) :
    SameArgs (parseLong E help s name argument).1.P s.P := by
  unfold parseLong
  split
  · exact parseOption_args ..
  · exact SameArgs.refl _

/-- the part of a parse state that positional binding reads and writes -/
structure ArgsAgree (s t : PS) : Prop where
  pos : s.positional = t.positional
  ret : s.retargs = t.retargs
  args : SameArgs s.P t.P

theorem ArgsAgree.refl (s : PS) : ArgsAgree s s := ⟨rfl, rfl, SameArgs.refl _⟩

/-- **Positional binding reads and writes the positional tables, the queue and the remaining
    arguments — nothing else**: from two states that agree on those, the same words give states
    that agree on those, and the same error. -/
theorem addArgs_congr (E : Env) : ∀ (ws : List Bytes) (s t : PS), ArgsAgree s t →
    ArgsAgree (s.addArgs E ws).1 (t.addArgs E ws).1 ∧ (s.addArgs E ws).2 = (t.addArgs E ws).2 := by
  intro ws
  induction ws with
  | nil => intro s t h; exact ⟨h, rfl⟩
  | cons a as ih =>
    intro s t h
    unfold PS.addArgs
    rw [← h.pos]
    cases hp : s.positional with
    | nil => simp only; exact ⟨⟨by simp [hp, ← h.pos], by simp [h.ret], h.args⟩, by first | rfl | trivial⟩
    | cons p ps =>
      simp only
      rw [← h.args.argAt p]
      cases hc : convert E (s.P.argAt p).tag a (s.P.argAt p).ty (s.P.argAt p).val with
      | error m => simp only; exact ⟨⟨by simp [hp, ← h.pos], h.ret, h.args.modArg p _⟩, by first | rfl | trivial⟩
      | ok v =>
        simp only
        apply ih
        exact ⟨rfl, h.ret, h.args.modArg p _⟩

theorem addArgs_nil (E : Env) (s : PS) : s.addArgs E [] = (s, none) := by unfold PS.addArgs; rfl

theorem addArgs_cons (E : Env) (s : PS) (a : Bytes) (as : List Bytes) :
    s.addArgs E (a :: as) = match s.addArgs E [a] with
      | (s', none) => s'.addArgs E as
      | r => r := by
  conv => lhs; unfold PS.addArgs
  cases hp : s.positional with
  | nil =>
    simp only
    have : s.addArgs E [a] = ({ s with retargs := s.retargs ++ [a] }, none) := by unfold PS.addArgs; simp only [hp]
    rw [this]
    simp only
    cases as with
    | nil => simp [addArgs_nil, hp]
    | cons b bs => unfold PS.addArgs; simp [hp]
  | cons p ps =>
    simp only
    cases hc : convert E (s.P.argAt p).tag a (s.P.argAt p).ty (s.P.argAt p).val with
    | error m =>
      simp only
      have : s.addArgs E [a] = ({ s with P := s.P.modArg p fun ad => { ad with val := convertFailState ad.ty ad.val }, err := some (.foreign m) }, some (.foreign m)) := by
        unfold PS.addArgs; simp only [hp, hc]
      rw [this]
      simp only [hp]
    | ok v =>
      simp only
      have : s.addArgs E [a] = ({ s with P := s.P.modArg p fun ad => { ad with val := v }, positional := if (s.P.argAt p).isRemaining then p :: ps else ps }, none) := by
        unfold PS.addArgs; simp only [hp, hc, addArgs_nil]
      rw [this]


theorem addArgs_frame (E : Env) (s : PS) (as : List Bytes) :
    (s.addArgs E as).1.args = s.args ∧ (s.addArgs E as).1.cmd = s.cmd := by
  fun_induction PS.addArgs E s as with
  | case1 s => exact ⟨rfl, rfl⟩
  | case2 s a as hpos => exact ⟨rfl, rfl⟩
  | case3 s a as p ps hpos ad m hconv P => exact ⟨rfl, rfl⟩
  | case4 s a as p ps hpos ad v hconv P ih => exact ih

/-- one token of a command line: an option occurrence `--name[=V]` or a plain word -/
inductive Item where
  | occ (o : Occ)
  | word (w : Bytes)

def Item.render : Item → Bytes
  | .occ o => longToken o.1 o.2
  | .word w => w

def renderItems (items : List Item) : List Bytes := items.map Item.render

def wordsOf : List Item → List Bytes
  | [] => []
  | .word w :: r => w :: wordsOf r
  | .occ _ :: r => wordsOf r

def occsOf : List Item → List Occ
  | [] => []
  | .word _ :: r => occsOf r
  | .occ o :: r => o :: occsOf r

/-- a word that is neither option syntax nor the terminator -/
def PlainWord (w : Bytes) : Prop := argumentIsOption w = false ∧ w ≠ B "--"

/-- a token the loop passes through to the positional binder: a plain word, or - under IgnoreUnknown -
    a long option that is not in scope -/
def PassedToken (P : Parser) (ci : Nat) (w : Bytes) : Prop :=
  PlainWord w ∨ (P.opts.ignoreUnknown = true ∧ ∃ n a, w = longToken n a ∧ TypableLong n ∧ P.lookupLong ci n = none)

theorem PassedToken.of_sameDecl {P Q : Parser} (h : SameDecl P Q) (ci : Nat) (w : Bytes) (hp : PassedToken P ci w) :
    PassedToken Q ci w := by
  rcases hp with hp | ⟨hi, n, a, hw, ht, hl⟩
  · exact Or.inl hp
  · exact Or.inr ⟨by rw [← h.opts]; exact hi, n, a, hw, ht, by rw [← h.lookupLong]; exact hl⟩

/-- **An unknown option under IgnoreUnknown is one `addArgs` of the token itself**: it is handed,
    verbatim, to the positional binder, and the loop goes on. -/
theorem parseLoop_ignored_unknown (E : Env) (help : HelpFn) (fuel : Nat) (s : PS) (n : Bytes) (a : Option Bytes)
    (rest : List Bytes) (ht : TypableLong n) (hargs : s.args = longToken n a :: rest)
    (hl : s.P.lookupLong s.cmd n = none) (hi : s.P.opts.ignoreUnknown = true) :
    parseLoop E help (fuel + 1) s =
      parseLoop E help fuel (({ s with arg := longToken n a, args := rest } : PS).addArgs E [longToken n a]).1 := by
  rw [parseLoop_long_token E help fuel s n a rest ht hargs]
  have hpl : parseLong E help { s with arg := longToken n a, args := rest } n a =
      ({ s with arg := longToken n a, args := rest }, some (.flags .unknownFlag (B "unknown flag `" ++ n ++ B "'"))) := by
    unfold parseLong
    have : ({ s with arg := longToken n a, args := rest } : PS).P.lookupLong ({ s with arg := longToken n a, args := rest } : PS).cmd n = none := hl
    simp only [this]
  rw [hpl]
  simp only
  have hpol : unknownPolicyStops s.P (.flags .unknownFlag (B "unknown flag `" ++ n ++ B "'")) = false := by
    simp [unknownPolicyStops, GoErr.isUnknownFlag, hi]
  simp only [hpol, Bool.false_eq_true, if_false, hi, if_true]

/-- **One plain word is one `addArgs`** when the command reached has no subcommands and
    PassAfterNonOption is off: the loop hands the word to the positional binder and goes on. -/
theorem parseLoop_plain_word (E : Env) (help : HelpFn) (fuel : Nat) (s : PS) (w : Bytes) (rest : List Bytes)
    (hw : PlainWord w) (hargs : s.args = w :: rest)
    (hpa : s.P.opts.passAfterNonOption = false) (hsubs : s.P.subs s.cmd = []) :
    parseLoop E help (fuel + 1) s =
      match ({ s with arg := w, args := rest } : PS).addArgs E [w] with
      | (s', some _) => s'
      | (s', none) => parseLoop E help fuel s' := by
  conv => lhs; unfold parseLoop
  have heof : s.eof = false := by simp [PS.eof, hargs]
  simp only [heof, Bool.false_eq_true, if_false]
  have hpop : s.pop = ({ s with arg := w, args := rest }, w) := by simp [PS.pop, hargs]
  rw [hpop]
  have hdd : decide (w = B "--") = false := by simp [hw.2]
  simp only [hdd, Bool.and_false, Bool.false_eq_true, if_false, hw.1, Bool.not_false, if_true, hpa, Bool.false_and]
  unfold parseNonOption
  simp only [hsubs, ne_eq, not_true_eq_false, decide_false, Bool.false_and, Bool.false_eq_true, if_false, ite_self]
  generalize ({ s with arg := w, args := rest } : PS).addArgs E [w] = res
  obtain ⟨s', e⟩ := res
  cases e <;> rfl

/-- the tokens applied one after the other: an occurrence through `parseLong`, a word through the
    positional binder; stops at the first error -/
def applyItems (E : Env) (help : HelpFn) : PS → List Item → PS × Option GoErr
  | s, [] => (s, none)
  | s, .occ it :: rest =>
    match parseLong E help { s with arg := longToken it.1 it.2, args := renderItems rest } it.1 it.2 with
    | (s', none) => applyItems E help s' rest
    | (s', some e) => (s', some e)
  | s, .word w :: rest =>
    match ({ s with arg := w, args := renderItems rest } : PS).addArgs E [w] with
    | (s', none) => applyItems E help s' rest
    | (s', some e) => (s', some e)

/-- what the interleaving theorems assume of a state: no subcommands below the command reached,
    PassAfterNonOption off, every occurrence names an option in scope -/
structure ItemsOK (s : PS) (items : List Item) : Prop where
  pa : s.P.opts.passAfterNonOption = false
  subs : s.P.subs s.cmd = []
  occs : ∀ it ∈ occsOf items, OccOK s.P s.cmd it
  words : ∀ w ∈ wordsOf items, PassedToken s.P s.cmd w

theorem ItemsOK.step {s s' : PS} {it : Item} {rest : List Item} (h : ItemsOK s (it :: rest))
    (hcmd : s'.cmd = s.cmd) (hd : SameDecl s'.P s.P) : ItemsOK s' rest := by
  refine ⟨by rw [hd.opts]; exact h.pa, by rw [hcmd, hd.subs]; exact h.subs, ?_, ?_⟩
  · intro o ho
    rw [hcmd]
    apply OccOK_of_sameDecl hd.symm
    apply h.occs
    cases it <;> simp [occsOf, ho]
  · intro w hw
    rw [hcmd]
    apply PassedToken.of_sameDecl hd.symm
    apply h.words
    cases it <;> simp [wordsOf, hw]

theorem occ_keeps (E : Env) (help : HelpFn) (s : PS) (it : Occ) (rest : List Bytes) (hok : OccOK s.P s.cmd it) :
    KeepsFrame { s with arg := longToken it.1 it.2, args := rest } (parseLong E help { s with arg := longToken it.1 it.2, args := rest } it.1 it.2).1 := by
  obtain ⟨ht, r, hl, hc⟩ := hok
  apply parseLong_keeps
  cases h2 : it.2 with
  | some V => left; rfl
  | none =>
    right
    intro r' hr'
    simp only at hr'
    rw [hl] at hr'
    cases hr'
    exact hc h2

/-- **The argument loop over a whole command line that interleaves option occurrences and plain
    words is the fold of the per-token step**, for any number of tokens in any order. -/
theorem parseLoop_of_items (E : Env) (help : HelpFn) (items : List Item) :
    ∀ (fuel : Nat) (s : PS), items.length < fuel → s.args = renderItems items → ItemsOK s items →
      (applyItems E help s items).2 = none →
      parseLoop E help fuel s = (applyItems E help s items).1 := by
  induction items with
  | nil =>
    intro fuel s hf hargs _ _
    cases fuel with
    | zero => simp at hf
    | succ fuel =>
      unfold parseLoop
      simp [PS.eof, hargs, renderItems, applyItems]
  | cons it rest ih =>
    intro fuel s hf hargs hok hres
    cases fuel with
    | zero => simp at hf
    | succ fuel =>
      cases it with
      | occ o =>
        have hoo := hok.occs o (by simp [occsOf])
        have hargs' : s.args = longToken o.1 o.2 :: renderItems rest := by simpa [renderItems, Item.render] using hargs
        rw [parseLoop_long_token E help fuel s o.1 o.2 (renderItems rest) hoo.1 hargs']
        unfold applyItems at hres ⊢
        have hk := occ_keeps E help s o (renderItems rest) hoo
        generalize parseLong E help { s with arg := longToken o.1 o.2, args := renderItems rest } o.1 o.2 = res at hk hres ⊢
        obtain ⟨s', e⟩ := res
        cases e with
        | some e => simp at hres
        | none =>
          simp only at hres ⊢
          exact ih fuel s' (by simp at hf; omega) hk.args (hok.step hk.cmd hk.decl) hres
      | word w =>
        have hw := hok.words w (by simp [wordsOf])
        have hargs' : s.args = w :: renderItems rest := by simpa [renderItems, Item.render] using hargs
        have hstep : (parseLoop E help (fuel + 1) s =
            (match ({ s with arg := w, args := renderItems rest } : PS).addArgs E [w] with
            | (s', some _) => s'
            | (s', none) => parseLoop E help fuel s')) ∨
            parseLoop E help (fuel + 1) s = parseLoop E help fuel (({ s with arg := w, args := renderItems rest } : PS).addArgs E [w]).1 := by
          rcases hw with hw | ⟨hi, n, a, rfl, ht, hl⟩
          · exact Or.inl (parseLoop_plain_word E help fuel s w (renderItems rest) hw hargs' hok.pa hok.subs)
          · exact Or.inr (parseLoop_ignored_unknown E help fuel s n a (renderItems rest) ht hargs' hl hi)
        unfold applyItems at hres ⊢
        have hfr := addArgs_frame E { s with arg := w, args := renderItems rest } [w]
        have hd := addArgs_decl E { s with arg := w, args := renderItems rest } [w]
        generalize ({ s with arg := w, args := renderItems rest } : PS).addArgs E [w] = res at hfr hd hres hstep ⊢
        obtain ⟨s', e⟩ := res
        cases e with
        | some e => simp at hres
        | none =>
          simp only at hres hfr hd hstep ⊢
          have hgo : parseLoop E help (fuel + 1) s = parseLoop E help fuel s' := by
            rcases hstep with h | h <;> exact h
          rw [hgo]
          exact ih fuel s' (by simp at hf; omega) hfr.1 (hok.step hfr.2 hd) hres

/-- **Options interleaved between the words do not disturb the positional binding**: as far as
    positional fields, the queue of pending fields and the remaining arguments go, the whole
    interleaved command line does exactly what the words alone do, in their order. -/
theorem items_bind_like_words_alone (E : Env) (help : HelpFn) (items : List Item) :
    ∀ (s t : PS), ArgsAgree s t → ItemsOK s items → (applyItems E help s items).2 = none →
      ArgsAgree (applyItems E help s items).1 (t.addArgs E (wordsOf items)).1 ∧ (t.addArgs E (wordsOf items)).2 = none := by
  induction items with
  | nil => intro s t h _ _; exact ⟨by simpa [applyItems, wordsOf, addArgs_nil] using h, by simp [wordsOf, addArgs_nil]⟩
  | cons it rest ih =>
    intro s t h hok hres
    cases it with
    | occ o =>
      have hoo := hok.occs o (by simp [occsOf])
      unfold applyItems at hres ⊢
      have hk := occ_keeps E help s o (renderItems rest) hoo
      have ha := parseLong_args E help { s with arg := longToken o.1 o.2, args := renderItems rest } o.1 o.2
      generalize parseLong E help { s with arg := longToken o.1 o.2, args := renderItems rest } o.1 o.2 = res at hk ha hres ⊢
      obtain ⟨s', e⟩ := res
      cases e with
      | some e => simp at hres
      | none =>
        simp only at hres hk ha ⊢
        have h' : ArgsAgree s' t := ⟨hk.pos.trans h.pos, hk.ret.trans h.ret, ha.trans h.args⟩
        exact ih s' t h' (hok.step hk.cmd hk.decl) hres
    | word w =>
      unfold applyItems at hres ⊢
      simp only [wordsOf]
      rw [addArgs_cons E t w (wordsOf rest)]
      have hc := addArgs_congr E [w] { s with arg := w, args := renderItems rest } t ⟨h.pos, h.ret, h.args⟩
      have hfr := addArgs_frame E { s with arg := w, args := renderItems rest } [w]
      have hd := addArgs_decl E { s with arg := w, args := renderItems rest } [w]
      generalize ({ s with arg := w, args := renderItems rest } : PS).addArgs E [w] = res at hc hfr hd hres ⊢
      generalize t.addArgs E [w] = rt at hc ⊢
      obtain ⟨s', e⟩ := res
      obtain ⟨t', et⟩ := rt
      simp only at hc
      obtain ⟨hag, he⟩ := hc
      subst he
      cases e with
      | some e => simp at hres
      | none =>
        simp only at hres hfr hd ⊢
        exact ih s' t' hag (hok.step hfr.2 hd) hres

end GoFlags
