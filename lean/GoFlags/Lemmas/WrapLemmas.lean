/-
  Characters and byte offsets (`charSpan`), cutting a string at a character boundary, what
  `TrimSpace` removes in terms of characters, `LastIndex(s, " ")` — the lemmas behind the
  wrapText theorems of Props/C17.lean.
-/
import GoFlags.Lemmas.Trim
import GoFlags.Wrap
set_option maxRecDepth 8192
namespace GoFlags
open Bytes

/-- the decoding of a string's first character, as a property of the pair -/
def IsErrorAnswer (d : Nat × Nat) : Prop := d.2 = 1 ∧ d.1 = runeError

theorem decodeRune_of_prefix_valid (p rest : Bytes) (hp : p ≠ []) (h : ¬ IsErrorAnswer (decodeRune p)) :
    decodeRune (p ++ rest) = decodeRune p := by
  obtain ⟨hv, hs⟩ := decodeRune_valid p h hp
  have h1 : decodeRune p = ((decodeRune p).1, (encodeRune (decodeRune p).1).length) := by
    conv => lhs; rw [hs]
    exact decodeRune_encodeRune _ hv _
  conv => lhs; rw [hs, List.append_assoc]
  rw [decodeRune_encodeRune _ hv, ← h1]

/-- cutting a string at or after the end of its first character does not change how that
    character decodes -/
theorem decodeRune_take (s : Bytes) (k : Nat) (hk : (decodeRune s).2 ≤ k) : decodeRune (s.take k) = decodeRune s := by
  by_cases hs : s = []
  · subst hs; simp
  have hpos := decodeRune_width_pos s hs
  have htk : s.take k ≠ [] := by
    cases s with
    | nil => exact absurd rfl hs
    | cons b t => cases k with
      | zero => omega
      | succ k => simp
  by_cases herr : IsErrorAnswer (decodeRune s)
  · -- a truncated or malformed start stays malformed when cut shorter
    by_cases herr' : IsErrorAnswer (decodeRune (s.take k))
    · obtain ⟨a1, a2⟩ := herr; obtain ⟨b1, b2⟩ := herr'
      exact Prod.ext (b2.trans a2.symm) (b1.trans a1.symm)
    · exfalso
      have := decodeRune_of_prefix_valid (s.take k) (s.drop k) htk herr'
      rw [List.take_append_drop] at this
      rw [this] at herr
      exact herr' herr
  · obtain ⟨hv, hsd⟩ := decodeRune_valid s herr hs
    have hw : (decodeRune s).2 = (encodeRune (decodeRune s).1).length := by
      have : decodeRune s = ((decodeRune s).1, (encodeRune (decodeRune s).1).length) := by
        conv => lhs; rw [hsd]
        exact decodeRune_encodeRune _ hv _
      exact congrArg Prod.snd this
    have : s.take k = encodeRune (decodeRune s).1 ++ (s.drop (decodeRune s).2).take (k - (decodeRune s).2) := by
      conv => lhs; rw [hsd]
      rw [List.take_append, hw]
      have : k ≥ (encodeRune (decodeRune s).1).length := by omega
      rw [List.take_of_length_le this]
    rw [this, decodeRune_encodeRune _ hv]
    exact Prod.ext rfl hw.symm

/-- byte offset just after the first `n` characters -/
def runeOffset : Nat → Bytes → Nat
  | 0, _ => 0
  | n + 1, s => (decodeRune s).2 + runeOffset n (s.drop (decodeRune s).2)

theorem charSpan_eq (n : Nat) : ∀ (s : Bytes) (st en : Nat),
    charSpan (n + 1) s st en = (en + runeOffset n s, en + runeOffset (n + 1) s) := by
  induction n with
  | zero => intro s st en; simp [charSpan, runeOffset]
  | succ n ih =>
    intro s st en
    rw [charSpan, ih]
    simp only [runeOffset]
    refine Prod.ext ?_ ?_ <;> simp only <;> omega

theorem runeCount_cons (b : Nat) (t : Bytes) :
    runeCount (b :: t) = 1 + runeCount ((b :: t).drop (decodeRune (b :: t)).2) := by
  unfold runeCount; rw [runes_cons]; simp; omega

/-- the first `n` characters and the rest, cut at the byte offset after the `n`-th character -/
theorem runes_at_offset (n : Nat) : ∀ (s : Bytes), n ≤ runeCount s →
    runes (s.take (runeOffset n s)) = (runes s).take n ∧ runes (s.drop (runeOffset n s)) = (runes s).drop n := by
  induction n with
  | zero => intro s _; simp [runeOffset, runes_nil]
  | succ n ih =>
    intro s hn
    cases s with
    | nil => simp [runeCount, runes_nil] at hn
    | cons b t =>
      have hcount := runeCount_cons b t
      have hle : n ≤ runeCount ((b :: t).drop (decodeRune (b :: t)).2) := by omega
      obtain ⟨ih1, ih2⟩ := ih _ hle
      simp only [runeOffset]
      generalize hw : (decodeRune (b :: t)).2 = w at *
      generalize hm : runeOffset n ((b :: t).drop w) = m at *
      have hpos : 0 < w := by rw [← hw]; exact decodeRune_width_pos (b :: t) (by simp)
      constructor
      · -- the cut string starts with the same character
        have hne : (b :: t).take (w + m) ≠ [] := by
          cases hq : w + m with
          | zero => omega
          | succ q => simp
        obtain ⟨b', t', hbt⟩ := List.exists_cons_of_ne_nil hne
        have hdec : decodeRune ((b :: t).take (w + m)) = decodeRune (b :: t) :=
          decodeRune_take (b :: t) (w + m) (by rw [hw]; omega)
        rw [hbt] at hdec ⊢
        rw [runes_cons, hdec, hw, ← hbt, List.drop_take, Nat.add_sub_cancel_left, ih1]
        rw [runes_cons b t, hw]
        rfl
      · rw [← List.drop_drop, ih2, runes_cons b t, hw]
        rfl

/-- `strings.TrimLeftFunc(IsSpace)` removes leading white-space characters and nothing else -/
theorem runes_trimLeft (s : Bytes) :
    ∃ k, runes (trimLeft s) = (runes s).drop k ∧ ∀ r ∈ (runes s).take k, isSpaceRune r = true := by
  induction hn : s.length using Nat.strongRecOn generalizing s with
  | _ n ih =>
    cases s with
    | nil => exact ⟨0, by simp [trimLeft_nil], by simp⟩
    | cons b t =>
      rw [trimLeft_cons]
      cases hs : isSpaceRune (decodeRune (b :: t)).1 with
      | false => exact ⟨0, by simp, by simp⟩
      | true =>
        simp only [if_true]
        have hpos := decodeRune_width_pos (b :: t) (by simp)
        obtain ⟨k, hk1, hk2⟩ := ih ((b :: t).drop (decodeRune (b :: t)).2).length (by
          subst hn; simp only [List.length_drop, List.length_cons] at hpos ⊢; omega) _ rfl
        refine ⟨k + 1, ?_, ?_⟩
        · rw [hk1, runes_cons b t]; rfl
        · rw [runes_cons b t]
          intro r hr
          simp only [List.take_succ_cons, List.mem_cons] at hr
          rcases hr with rfl | hr
          · exact hs
          · exact hk2 r hr

theorem spaceRunesMB_spec (sp : Nat) (h : sp ∈ spaceRunesMB) :
    validRune sp = true ∧ isSpaceRune sp = true ∧ ∃ x y, encodeRune sp = x :: y ∧ isCont x = false := by
  simp only [spaceRunesMB, List.mem_cons, List.mem_nil_iff, or_false] at h
  rcases h with h | h | h | h | h | h | h | h | h | h | h | h | h | h | h | h | h | h | h <;>
    (subst h; exact ⟨by decide, by decide, _, _, by simp [encodeRune, validRune]; exact ⟨rfl, rfl⟩, by decide⟩)

/-- one step of the right trim removes one white-space character from the end -/
theorem trimRevStep_spec (t t' : Bytes) (h : trimRevStep t = some t') :
    ∃ sp, isSpaceRune sp = true ∧ runes t.reverse = runes t'.reverse ++ [sp] := by
  unfold trimRevStep at h
  cases t with
  | nil => simp at h
  | cons b r =>
    simp only at h
    split at h
    · next hb =>
      injection h with h; subst h
      have hb' : b < 0x80 := by
        simp only [isAsciiSpace, Bool.or_eq_true, decide_eq_true_eq, Bool.and_eq_true] at hb; omega
      refine ⟨b, ?_, ?_⟩
      · simp only [isAsciiSpace, Bool.or_eq_true, decide_eq_true_eq, Bool.and_eq_true] at hb
        simp only [isSpaceRune, Bool.or_eq_true, decide_eq_true_eq, Bool.and_eq_true]
        omega
      · rw [List.reverse_cons, runes_append_noncont _ b [] (by simp [isCont]; omega), runes_ascii b [] hb', runes_nil]
    · split at h
      · next sp hfind =>
        injection h with h
        have hmem := List.mem_of_find?_eq_some hfind
        have hpre := List.find?_some hfind
        obtain ⟨hval, hsps, x, y, he, hxc⟩ := spaceRunesMB_spec sp hmem
        obtain ⟨rest, hrest⟩ := hasPrefix_elim _ _ hpre
        refine ⟨sp, hsps, ?_⟩
        have ht' : t' = rest := by
          rw [← h, hrest, List.drop_append_of_le_length (by simp)]
          simp
        rw [ht', hrest, List.reverse_append, List.reverse_reverse, he, runes_append_noncont _ x y hxc, ← he,
          runes_encodeRune sp hval]
      · simp at h

theorem trimRevFuel_spec (n : Nat) : ∀ t : Bytes,
    ∃ rs, (∀ r ∈ rs, isSpaceRune r = true) ∧ runes t.reverse = runes (trimRevFuel n t).reverse ++ rs := by
  induction n with
  | zero => intro t; exact ⟨[], by simp, by simp [trimRevFuel]⟩
  | succ n ih =>
    intro t
    unfold trimRevFuel
    cases hs : trimRevStep t with
    | none => exact ⟨[], by simp, by simp⟩
    | some t' =>
      simp only
      obtain ⟨sp, hsp, hr⟩ := trimRevStep_spec t t' hs
      obtain ⟨rs, hrs, hr'⟩ := ih t'
      refine ⟨rs ++ [sp], ?_, ?_⟩
      · intro r hrm
        rcases List.mem_append.mp hrm with h | h
        · exact hrs r h
        · simp at h; rw [h]; exact hsp
      · rw [hr, hr', List.append_assoc]

/-- `strings.TrimRightFunc(IsSpace)` removes trailing white-space characters and nothing else -/
theorem runes_trimRight (s : Bytes) :
    ∃ rs, (∀ r ∈ rs, isSpaceRune r = true) ∧ runes s = runes (trimRight s) ++ rs := by
  obtain ⟨rs, h1, h2⟩ := trimRevFuel_spec s.reverse.length s.reverse
  refine ⟨rs, h1, ?_⟩
  unfold trimRight trimRev
  simpa using h2

/-- the characters that are not white space, in order -/
def nonSpace (rs : List Nat) : List Nat := rs.filter fun r => !isSpaceRune r

theorem nonSpace_trimSpace (s : Bytes) : nonSpace (runes (trimSpace s)) = nonSpace (runes s) := by
  unfold trimSpace
  obtain ⟨k, hk1, hk2⟩ := runes_trimLeft s
  obtain ⟨rs, hr1, hr2⟩ := runes_trimRight (trimLeft s)
  have h1 : nonSpace (runes (trimLeft s)) = nonSpace (runes s) := by
    rw [hk1]
    conv => rhs; rw [← List.take_append_drop k (runes s)]
    unfold nonSpace
    rw [List.filter_append]
    have : ((runes s).take k).filter (fun r => !isSpaceRune r) = [] := by
      rw [List.filter_eq_nil_iff]; intro r hr; simp [hk2 r hr]
    rw [this]; rfl
  rw [← h1, hr2]
  unfold nonSpace
  rw [List.filter_append]
  have : rs.filter (fun r => !isSpaceRune r) = [] := by
    rw [List.filter_eq_nil_iff]; intro r hr; simp [hr1 r hr]
  rw [this]; simp

theorem runeCount_trimSpace_le (s : Bytes) : runeCount (trimSpace s) ≤ runeCount s := by
  unfold trimSpace runeCount
  obtain ⟨k, hk1, _⟩ := runes_trimLeft s
  obtain ⟨rs, _, hr2⟩ := runes_trimRight (trimLeft s)
  have h1 : (runes (trimLeft s)).length ≤ (runes s).length := by rw [hk1]; simp
  have h2 : (runes (trimRight (trimLeft s))).length ≤ (runes (trimLeft s)).length := by
    rw [hr2]; simp
  omega

theorem lastIndexSpace_go_spec (s : Bytes) : ∀ (i : Nat) (acc : Option Nat) (p : Nat),
    lastIndexSpace.go s i acc = some p → acc = some p ∨ ∃ pre post, s = pre ++ 0x20 :: post ∧ p = i + pre.length := by
  induction s with
  | nil => intro i acc p h; left; simpa [lastIndexSpace.go] using h
  | cons c t ih =>
    intro i acc p h
    simp only [lastIndexSpace.go] at h
    rcases ih (i + 1) _ p h with h1 | ⟨pre, post, h2, h3⟩
    · split at h1
      · next hc => right; injection h1 with h1; exact ⟨[], t, by simp [hc], by simp [h1]⟩
      · left; exact h1
    · right; exact ⟨c :: pre, post, by rw [h2]; rfl, by simp; omega⟩

theorem lastIndexSpace_spec (s : Bytes) (p : Nat) (h : lastIndexSpace s = some p) :
    ∃ post, s = s.take p ++ 0x20 :: post ∧ p < s.length := by
  unfold lastIndexSpace at h
  rcases lastIndexSpace_go_spec s 0 none p h with h1 | ⟨pre, post, h2, h3⟩
  · cases h1
  · have hp : p = pre.length := by omega
    refine ⟨post, ?_, ?_⟩
    · have ht : s.take p = pre := by rw [hp, h2]; simp
      rw [ht]; exact h2
    · rw [h2, hp]; simp

/-! ### nothing is lost: the words come out in order -/

theorem trimRevStep_suffix (t t' : Bytes) (h : trimRevStep t = some t') : ∃ pre, pre ≠ [] ∧ t = pre ++ t' := by
  unfold trimRevStep at h
  cases t with
  | nil => simp at h
  | cons b r =>
    simp only at h
    split at h
    · injection h with h; exact ⟨[b], by simp, by rw [← h]; rfl⟩
    · split at h
      · next sp hfind =>
        injection h with h
        have hpos := encodeRune_length_pos sp
        refine ⟨(b :: r).take (encodeRune sp).length, ?_, ?_⟩
        · cases hq : (encodeRune sp).length with
          | zero => omega
          | succ q => simp
        · rw [← h]; exact (List.take_append_drop _ _).symm
      · simp at h

theorem trimRevFuel_suffix (n : Nat) : ∀ t : Bytes, ∃ pre, t = pre ++ trimRevFuel n t := by
  induction n with
  | zero => intro t; exact ⟨[], rfl⟩
  | succ n ih =>
    intro t
    unfold trimRevFuel
    cases hs : trimRevStep t with
    | none => exact ⟨[], rfl⟩
    | some t' =>
      simp only
      obtain ⟨pre, _, hp⟩ := trimRevStep_suffix t t' hs
      obtain ⟨pre', hp'⟩ := ih t'
      exact ⟨pre ++ pre', by rw [List.append_assoc, ← hp', ← hp]⟩

/-- the right trim keeps a prefix -/
theorem trimRight_prefix (s : Bytes) : ∃ suf, s = trimRight s ++ suf := by
  obtain ⟨pre, hp⟩ := trimRevFuel_suffix s.reverse.length s.reverse
  refine ⟨pre.reverse, ?_⟩
  unfold trimRight trimRev
  have := congrArg List.reverse hp
  simpa using this

theorem trimLeft_head (s : Bytes) : (trimLeft s).head? ≠ some 0x20 := by
  induction hn : s.length using Nat.strongRecOn generalizing s with
  | _ n ih =>
    cases s with
    | nil => simp [trimLeft_nil]
    | cons b t =>
      rw [trimLeft_cons]
      cases hs : isSpaceRune (decodeRune (b :: t)).1 with
      | true =>
        simp only [if_true]
        have hpos := decodeRune_width_pos (b :: t) (by simp)
        exact ih ((b :: t).drop (decodeRune (b :: t)).2).length (by
          subst hn; simp only [List.length_drop, List.length_cons] at hpos ⊢; omega) _ rfl
      | false =>
        simp only [Bool.false_eq_true, if_false, List.head?_cons, ne_eq, Option.some.injEq]
        intro hb
        subst hb
        simp [decodeRune, isSpaceRune] at hs

/-- a trimmed string does not start with a blank -/
theorem trimSpace_head (s : Bytes) : (trimSpace s).head? ≠ some 0x20 := by
  unfold trimSpace
  obtain ⟨suf, hsuf⟩ := trimRight_prefix (trimLeft s)
  have hh := trimLeft_head s
  cases hq : trimRight (trimLeft s) with
  | nil => simp
  | cons c r =>
    rw [hq] at hsuf
    rw [hsuf] at hh
    simpa using hh

theorem trimSpace_length_le (s : Bytes) : (trimSpace s).length ≤ s.length := by
  unfold trimSpace
  obtain ⟨suf, hsuf⟩ := trimRight_prefix (trimLeft s)
  have h1 := trimLeft_length_le s
  have h2 : (trimRight (trimLeft s)).length ≤ (trimLeft s).length := by
    conv => rhs; rw [hsuf]
    simp
  omega

theorem runeOffset_pos (n : Nat) (s : Bytes) (hn : 0 < n) (hs : s ≠ []) : 0 < runeOffset n s := by
  cases n with
  | zero => omega
  | succ n =>
    simp only [runeOffset]
    have := decodeRune_width_pos s hs
    omega

end GoFlags
