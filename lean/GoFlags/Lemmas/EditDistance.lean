/-
  The textbook Levenshtein distance (`ed`) and the facts about it that the correctness proof
  of the Go dynamic programme needs.
-/
namespace GoFlags

/-- Textbook Levenshtein distance: unit-cost insertion, deletion, substitution. -/
def ed : List Nat → List Nat → Nat
  | [], t => t.length
  | s, [] => s.length
  | a :: s, b :: t =>
    min (min (ed s (b :: t) + 1) (ed (a :: s) t + 1)) (ed s t + (if a = b then 0 else 1))

@[simp] theorem ed_nil_left (t : List Nat) : ed [] t = t.length := by simp [ed]
@[simp] theorem ed_nil_right (s : List Nat) : ed s [] = s.length := by cases s <;> simp [ed]

theorem ed_cons_cons (a b : Nat) (s t : List Nat) :
    ed (a :: s) (b :: t) =
      min (min (ed s (b :: t) + 1) (ed (a :: s) t + 1)) (ed s t + (if a = b then 0 else 1)) := by
  simp [ed]

/-- inserting one character into the target costs at most one more edit -/
theorem ed_ins (s : List Nat) (b : Nat) (t : List Nat) : ed s (b :: t) ≤ ed s t + 1 := by
  cases s with
  | nil => simp
  | cons a s => rw [ed_cons_cons]; omega

/-- deleting one character from the source costs at most one more edit -/
theorem ed_del (a : Nat) (s t : List Nat) : ed (a :: s) t ≤ ed s t + 1 := by
  cases t with
  | nil => simp
  | cons b t => rw [ed_cons_cons]; omega

/-- dropping a source character changes the distance by at most one (Lipschitz, source side) -/
theorem ed_le_cons_left (a : Nat) (s t : List Nat) : ed s t ≤ ed (a :: s) t + 1 := by
  induction t generalizing s a with
  | nil => simp; omega
  | cons b t ih =>
    rw [ed_cons_cons]
    have h1 := ed_ins s b t
    have h2 := ih a s
    split <;> omega

/-- Lipschitz, target side -/
theorem ed_le_cons_right (b : Nat) (s t : List Nat) : ed s t ≤ ed s (b :: t) + 1 := by
  induction s generalizing t b with
  | nil => simp; omega
  | cons a s ih =>
    rw [ed_cons_cons]
    have h1 := ed_del a s t
    have h2 := ih b t
    split <;> omega

/-- equal heads are never worth editing: the shortcut the Go code takes -/
theorem ed_cons_same (a : Nat) (s t : List Nat) : ed (a :: s) (a :: t) = ed s t := by
  rw [ed_cons_cons]
  have h1 := ed_le_cons_right a s t
  have h2 := ed_le_cons_left a s t
  simp; omega

theorem ed_cons_diff (a b : Nat) (s t : List Nat) (h : a ≠ b) :
    ed (a :: s) (b :: t) = min (min (ed s (b :: t) + 1) (ed (a :: s) t + 1)) (ed s t + 1) := by
  rw [ed_cons_cons]; simp [h]

theorem ed_symm (s t : List Nat) : ed s t = ed t s := by
  induction s generalizing t with
  | nil => simp
  | cons a s ih =>
    induction t with
    | nil => simp
    | cons b t iht =>
      rw [ed_cons_cons, ed_cons_cons, ih (b :: t), iht, ih t]
      have : (if a = b then 0 else 1) = (if b = a then 0 else (1 : Nat)) := by
        by_cases h : a = b <;> simp [h, eq_comm]
      rw [this]; omega

theorem ed_self (s : List Nat) : ed s s = 0 := by
  induction s with
  | nil => simp
  | cons a s ih => rw [ed_cons_same, ih]

theorem ed_eq_zero (s t : List Nat) : ed s t = 0 ↔ s = t := by
  constructor
  · intro h
    induction s generalizing t with
    | nil => cases t <;> simp_all
    | cons a s ih =>
      cases t with
      | nil => simp at h
      | cons b t =>
        rw [ed_cons_cons] at h
        by_cases hab : a = b
        · simp [hab] at h
          have : ed s t = 0 := by omega
          rw [hab, ih t this]
        · simp [hab] at h
  · intro h; rw [h, ed_self]

/-- the distance never exceeds the longer length -/
theorem ed_le_max (s t : List Nat) : ed s t ≤ max s.length t.length := by
  induction s generalizing t with
  | nil => simp
  | cons a s ih =>
    cases t with
    | nil => simp
    | cons b t =>
      rw [ed_cons_cons]
      have := ih t
      simp only [List.length_cons]
      split <;> omega

/-! ### The distance as the minimum cost of an edit script; invariance under reversal -/

/-- `Reach s t n`: `s` can be rewritten into `t` with `n` unit-cost edits. -/
inductive Reach : List Nat → List Nat → Nat → Prop
  | nil : Reach [] [] 0
  | keep (a) {s t n} : Reach s t n → Reach (a :: s) (a :: t) n
  | sub (a b) {s t n} : Reach s t n → Reach (a :: s) (b :: t) (n + 1)
  | del (a) {s t n} : Reach s t n → Reach (a :: s) t (n + 1)
  | ins (b) {s t n} : Reach s t n → Reach s (b :: t) (n + 1)

theorem reach_ins_all (t : List Nat) : Reach [] t t.length := by
  induction t with
  | nil => exact .nil
  | cons b t ih => exact .ins b ih

theorem reach_del_all (s : List Nat) : Reach s [] s.length := by
  induction s with
  | nil => exact .nil
  | cons a s ih => exact .del a ih

/-- achievability: some script has cost `ed s t` -/
theorem reach_ed (s t : List Nat) : Reach s t (ed s t) := by
  induction s generalizing t with
  | nil => simpa using reach_ins_all t
  | cons a s ih =>
    induction t with
    | nil => simpa using reach_del_all (a :: s)
    | cons b t iht =>
      rw [ed_cons_cons]
      by_cases hab : a = b
      · subst hab
        have e : ed (a :: s) (a :: t) = ed s t := ed_cons_same a s t
        rw [ed_cons_cons] at e
        simp only [if_true] at e ⊢
        rw [e]; exact .keep a (ih t)
      · simp only [hab, if_false]
        have h1 : Reach (a :: s) (b :: t) (ed s (b :: t) + 1) := .del a (ih (b :: t))
        have h2 : Reach (a :: s) (b :: t) (ed (a :: s) t + 1) := .ins b iht
        have h3 : Reach (a :: s) (b :: t) (ed s t + 1) := .sub a b (ih t)
        have hm : ∀ x y z : Nat,
            min (min x y) z = x ∨ min (min x y) z = y ∨ min (min x y) z = z := by
          intro x y z; omega
        rcases hm (ed s (b :: t) + 1) (ed (a :: s) t + 1) (ed s t + 1) with e | e | e <;>
          rw [e] <;> assumption

/-- optimality: no script is cheaper than `ed s t` -/
theorem ed_le_of_reach {s t : List Nat} {n : Nat} (h : Reach s t n) : ed s t ≤ n := by
  induction h with
  | nil => simp
  | keep a _ ih => rw [ed_cons_same]; exact ih
  | sub a b _ ih => rw [ed_cons_cons]; split <;> omega
  | @del a s t n _ ih => have := ed_del a s t; omega
  | @ins b s t n _ ih => have := ed_ins s b t; omega

theorem reach_snoc_keep {s t : List Nat} {n : Nat} (h : Reach s t n) (a : Nat) :
    Reach (s ++ [a]) (t ++ [a]) n := by
  induction h with
  | nil => exact .keep a .nil
  | keep x _ ih => exact .keep x ih
  | sub x y _ ih => exact .sub x y ih
  | del x _ ih => exact .del x ih
  | ins y _ ih => exact .ins y ih

theorem reach_snoc_sub {s t : List Nat} {n : Nat} (h : Reach s t n) (a b : Nat) :
    Reach (s ++ [a]) (t ++ [b]) (n + 1) := by
  induction h with
  | nil => exact .sub a b .nil
  | keep x _ ih => exact .keep x ih
  | sub x y _ ih => exact .sub x y ih
  | del x _ ih => exact .del x ih
  | ins y _ ih => exact .ins y ih

theorem reach_snoc_del {s t : List Nat} {n : Nat} (h : Reach s t n) (a : Nat) :
    Reach (s ++ [a]) t (n + 1) := by
  induction h with
  | nil => exact .del a .nil
  | keep x _ ih => exact .keep x ih
  | sub x y _ ih => exact .sub x y ih
  | del x _ ih => exact .del x ih
  | ins y _ ih => exact .ins y ih

theorem reach_snoc_ins {s t : List Nat} {n : Nat} (h : Reach s t n) (b : Nat) :
    Reach s (t ++ [b]) (n + 1) := by
  induction h with
  | nil => exact .ins b .nil
  | keep x _ ih => exact .keep x ih
  | sub x y _ ih => exact .sub x y ih
  | del x _ ih => exact .del x ih
  | ins y _ ih => exact .ins y ih

theorem reach_reverse {s t : List Nat} {n : Nat} (h : Reach s t n) :
    Reach s.reverse t.reverse n := by
  induction h with
  | nil => exact .nil
  | keep a _ ih => simpa using reach_snoc_keep ih a
  | sub a b _ ih => simpa using reach_snoc_sub ih a b
  | del a _ ih => simpa using reach_snoc_del ih a
  | ins b _ ih => simpa using reach_snoc_ins ih b

/-- reading both strings backwards does not change the distance -/
theorem ed_reverse (s t : List Nat) : ed s.reverse t.reverse = ed s t := by
  apply Nat.le_antisymm
  · exact ed_le_of_reach (reach_reverse (reach_ed s t))
  · have := ed_le_of_reach (reach_reverse (reach_ed s.reverse t.reverse))
    simpa using this

end GoFlags
