/-
  A cluster of short options: the parser's loop against the completion walk's loop, and the
  walk's step on any option token.
-/
import GoFlags.Lemmas.Walk
namespace GoFlags
open Bytes

/-! # A cluster of short options: the parser's loop against the completion walk's loop -/

theorem encodeRunes_cons (c : Nat) (rs : List Nat) : encodeRunes (c :: rs) = encodeRune c ++ encodeRunes rs := by
  simp [encodeRunes]

theorem encodeRunes_nil : encodeRunes [] = [] := rfl

theorem encodeRunes_ne_nil (c : Nat) (rs : List Nat) : encodeRunes (c :: rs) ≠ [] := by
  rw [encodeRunes_cons]
  have := encodeRune_length_pos c
  intro h
  have h2 := congrArg List.length h
  simp only [List.length_append, List.length_nil] at h2
  omega

theorem encodeRunes_length_zero (rs : List Nat) (h : (encodeRunes rs).length = 0) : rs = [] := by
  cases rs with
  | nil => rfl
  | cons c rest => exact absurd (List.eq_nil_of_length_eq_zero h) (encodeRunes_ne_nil c rest)

theorem KeepsFrame.refl (s : PS) : KeepsFrame s s := ⟨rfl, rfl, rfl, rfl, rfl, SameDecl.refl _⟩

theorem KeepsFrame.trans {a b c : PS} (h1 : KeepsFrame a b) (h2 : KeepsFrame b c) : KeepsFrame a c :=
  ⟨h2.args.trans h1.args, h2.cmd.trans h1.cmd, h2.pos.trans h1.pos, h2.ret.trans h1.ret, h2.err.trans h1.err,
   h2.decl.trans h1.decl⟩

theorem KeepsFrame.accepts {a b c : PS} {t : Bool} (h1 : KeepsFrame a b) (h2 : Accepts b c t) : Accepts a c t :=
  ⟨fun ht => by rw [← h1.args]; exact h2.avail ht, by rw [h2.args, h1.args], h2.cmd.trans h1.cmd, h2.pos.trans h1.pos,
   h2.ret.trans h1.ret, h2.err.trans h1.err, h2.decl.trans h1.decl⟩

theorem KeepsFrame.toAccepts {a b : PS} (h : KeepsFrame a b) : Accepts a b false :=
  ⟨fun ht => Bool.noConfusion ht, by simpa using h.args, h.cmd, h.pos, h.ret, h.err, h.decl⟩

/-- an option inside a cluster (not the last one) never takes the next word -/
theorem parseOption_inner_keeps (E : Env) (help : HelpFn) (s : PS) (r : ORef) :
    KeepsFrame s (parseOption E help s r false none).1 := by
  have hd := parseOption_decl E help s r false none
  by_cases hca : (s.P.opt r).ty.canArgument = false
  · exact parseOption_keeps E help s r false none (Or.inr hca)
  · have hca' : (s.P.opt r).ty.canArgument = true := by simpa using hca
    unfold parseOption at hd ⊢
    simp only [hca', Bool.not_true, Bool.false_eq_true, if_false, Option.isSome_none, Bool.false_and, Bool.or_self] at hd ⊢
    split
    · simp only [‹(s.P.opt r).optionalArg = true›, if_true] at hd
      exact ⟨rfl, rfl, rfl, rfl, rfl, hd⟩
    · exact KeepsFrame.refl s

theorem parseShortLoop_step (E : Env) (help : HelpFn) (total fuel : Nat) (s : PS) (l : Bytes) (i : Nat) (argument : Option Bytes)
    (hl : l ≠ []) :
    parseShortLoop E help total (fuel + 1) s l i argument =
      match s.P.lookupShort s.cmd (decodeRune l).1 with
      | some r =>
        match parseOption E help s r ((i + runeLen (decodeRune l).1 = total) && !(s.P.opt r).optionalArg) argument with
        | (s, some e) => (s, some e)
        | (s, none) => parseShortLoop E help total fuel s (l.drop (decodeRune l).2) (i + (decodeRune l).2) none
      | none => (s, some (.flags .unknownFlag (B "unknown flag `" ++ encodeRune (decodeRune l).1 ++ B "'"))) := by
  cases l with
  | nil => exact absurd rfl hl
  | cons b rest => rfl

theorem compShortWalk_step (cs : CS) (total fuel : Nat) (l : Bytes) (i : Nat) (o : Option ORef) (hl : l ≠ []) :
    compShortWalk cs total (fuel + 1) l i o =
      match cs.P.lookupShort cs.cmd (decodeRune l).1 with
      | none => (none, true)
      | some r =>
        if i = 0 && (cs.P.opt r).ty.canArgument && total ≠ (encodeRune (decodeRune l).1).length then (some r, false)
        else compShortWalk cs total fuel (l.drop (decodeRune l).2) (i + (decodeRune l).2) (some r) := by
  cases l with
  | nil => exact absurd rfl hl
  | cons b rest => rfl

theorem parseShortLoop_nil (E : Env) (help : HelpFn) (total fuel : Nat) (s : PS) (i : Nat) (argument : Option Bytes) :
    parseShortLoop E help total fuel s [] i argument = (s, none) := by
  cases fuel <;> rfl

theorem compShortWalk_nil (cs : CS) (total fuel : Nat) (i : Nat) (o : Option ORef) :
    compShortWalk cs total fuel [] i o = (o, true) := by
  cases fuel <;> rfl

/-- what one short-option token does to the parse state, against what the completion walk computes
    for it: accepted (`none`) — the walk found the cluster's last option and decides to skip the
    next word exactly when the parser took it; unknown option — the walk found none and the parser
    kept its frame -/
def ShortOutcome (s : PS) (cs : CS) (argNone : Bool) (res : PS × Option GoErr) (w : Option ORef × Bool) : Prop :=
  match res.2 with
  | none => ∃ r, w.1 = some r ∧
      Accepts s res.1 (argNone && (cs.P.opt r).ty.canArgument && !(cs.P.opt r).optionalArg && w.2)
  | some e => e.isUnknownFlag = true → w.1 = none ∧ KeepsFrame s res.1

theorem optTy_of_sameDecl {P Q : Parser} (h : SameDecl P Q) (r : ORef) :
    (P.opt r).ty = (Q.opt r).ty ∧ (P.opt r).optionalArg = (Q.opt r).optionalArg := by
  have hd := h.opt r
  constructor
  · have : (P.opt r).decl.ty = (Q.opt r).decl.ty := by rw [hd]
    exact this
  · have : (P.opt r).decl.optionalArg = (Q.opt r).decl.optionalArg := by rw [hd]
    exact this

/-- **The rest of a cluster** from byte offset `i` on (well-formed UTF-8), when the walk's
    "attached argument" exit cannot fire at this point. -/
theorem shortLoops (E : Env) (help : HelpFn) (total : Nat) :
    ∀ (rs : List Nat) (fuel : Nat) (s : PS) (cs : CS) (i : Nat) (last : Option ORef),
      (∀ c ∈ rs, validRune c = true) → (encodeRunes rs).length < fuel →
      SameDecl s.P cs.P → s.cmd = cs.cmd → i + (encodeRunes rs).length = total →
      (i = 0 → ∀ c rest, rs = c :: rest → ∀ r, cs.P.lookupShort cs.cmd c = some r →
        (cs.P.opt r).ty.canArgument = true → total = (encodeRune c).length) →
      (compShortWalk cs total fuel (encodeRunes rs) i last).2 = true ∧
      match (parseShortLoop E help total fuel s (encodeRunes rs) i none).2 with
      | none =>
        (rs = [] ∧ (compShortWalk cs total fuel (encodeRunes rs) i last).1 = last ∧
          (parseShortLoop E help total fuel s (encodeRunes rs) i none).1 = s) ∨
        (∃ r, (compShortWalk cs total fuel (encodeRunes rs) i last).1 = some r ∧
          Accepts s (parseShortLoop E help total fuel s (encodeRunes rs) i none).1
            ((cs.P.opt r).ty.canArgument && !(cs.P.opt r).optionalArg))
      | some e => e.isUnknownFlag = true →
          (compShortWalk cs total fuel (encodeRunes rs) i last).1 = none ∧
          KeepsFrame s (parseShortLoop E help total fuel s (encodeRunes rs) i none).1 := by
  intro rs
  induction rs with
  | nil =>
    intro fuel s cs i last _ _ _ _ _ _
    rw [encodeRunes_nil, parseShortLoop_nil, compShortWalk_nil]
    exact ⟨rfl, Or.inl ⟨rfl, rfl, rfl⟩⟩
  | cons c rest ih =>
    intro fuel s cs i last hv hf hd hc htot hfirst
    cases fuel with
    | zero => simp at hf
    | succ fuel =>
      have hne := encodeRunes_ne_nil c rest
      have hvc : validRune c = true := hv c (by simp)
      have hdec : decodeRune (encodeRunes (c :: rest)) = (c, (encodeRune c).length) := by
        rw [encodeRunes_cons]; exact decodeRune_encodeRune c hvc _
      have hdrop : (encodeRunes (c :: rest)).drop (encodeRune c).length = encodeRunes rest := by
        rw [encodeRunes_cons]; simp
      have hlen : (encodeRunes (c :: rest)).length = (encodeRune c).length + (encodeRunes rest).length := by
        rw [encodeRunes_cons]; simp
      have hpos := encodeRune_length_pos c
      rw [parseShortLoop_step E help total fuel s _ i none hne, compShortWalk_step cs total fuel _ i last hne]
      simp only [hdec, hdrop]
      have hlk : s.P.lookupShort s.cmd c = cs.P.lookupShort cs.cmd c := by rw [hd.lookupShort, hc]
      rw [hlk]
      cases hl : cs.P.lookupShort cs.cmd c with
      | none =>
        simp only
        exact ⟨trivial, fun _ => ⟨trivial, KeepsFrame.refl s⟩⟩
      | some r =>
        simp only
        obtain ⟨hty, hoa⟩ := optTy_of_sameDecl hd r
        -- the walk's attached-argument exit does not fire
        have hexit : (i = 0 && (cs.P.opt r).ty.canArgument && total ≠ (encodeRune c).length) = false := by
          by_cases hi : i = 0
          · cases hca : (cs.P.opt r).ty.canArgument with
            | false => simp
            | true =>
              have := hfirst hi c rest rfl r hl hca
              simp [this]
          · simp [hi]
        rw [show (decide (i = 0) && (cs.P.opt r).ty.canArgument && decide (total ≠ (encodeRune c).length)) = false from hexit]
        simp only [Bool.false_eq_true, if_false]
        cases hrest : rest with
        | nil =>
          -- the last option of the cluster
          subst hrest
          have hcan : (decide (i + runeLen c = total) && !(s.P.opt r).optionalArg) = !(s.P.opt r).optionalArg := by
            have : i + runeLen c = total := by
              unfold runeLen; rw [← htot, hlen, encodeRunes_nil]; simp
            simp [this]
          rw [hcan, encodeRunes_nil, compShortWalk_nil]
          have hacc := parseOption_accept E help s r none
          have hnuf := parseOption_not_unknownFlag E help s r (!(s.P.opt r).optionalArg) none
          generalize parseOption E help s r (!(s.P.opt r).optionalArg) none = res at hacc hnuf ⊢
          obtain ⟨s', e⟩ := res
          cases e with
          | some e =>
            simp only
            refine ⟨trivial, fun hu => ?_⟩
            rw [hnuf e rfl] at hu; cases hu
          | none =>
            simp only [parseShortLoop_nil]
            refine ⟨trivial, Or.inr ⟨r, rfl, ?_⟩⟩
            have := hacc rfl
            simp only [Option.isNone_none, Bool.and_true] at this
            rw [← hty, ← hoa]; exact this
        | cons c2 rest2 =>
          rw [← hrest]
          have hrne : rest ≠ [] := by rw [hrest]; simp
          have hrpos : 0 < (encodeRunes rest).length := by
            cases hq : (encodeRunes rest).length with
            | zero => exact absurd (encodeRunes_length_zero rest hq) hrne
            | succ n => omega
          have hcan : (decide (i + runeLen c = total) && !(s.P.opt r).optionalArg) = false := by
            have : ¬ (i + runeLen c = total) := by
              unfold runeLen; rw [← htot, hlen]; omega
            simp [this]
          rw [hcan]
          have hk := parseOption_inner_keeps E help s r
          have hnuf := parseOption_not_unknownFlag E help s r false none
          generalize parseOption E help s r false none = res at hk hnuf ⊢
          obtain ⟨s1, e⟩ := res
          cases e with
          | some e =>
            simp only
            -- the walk goes on regardless; all that matters is that the error is not "unknown"
            have hih := ih fuel s cs (i + (encodeRune c).length) (some r) (fun x hx => hv x (by simp [hx]))
              (by rw [hlen] at hf; omega) hd hc (by rw [← htot, hlen]; omega) (by intro h0; omega)
            refine ⟨hih.1, fun hu => ?_⟩
            rw [hnuf e rfl] at hu; cases hu
          | none =>
            simp only at hk ⊢
            have hih := ih fuel s1 cs (i + (encodeRune c).length) (some r) (fun x hx => hv x (by simp [hx]))
              (by rw [hlen] at hf; omega) (hk.decl.trans hd) (hk.cmd.trans hc) (by rw [← htot, hlen]; omega) (by intro h0; omega)
            refine ⟨hih.1, ?_⟩
            have h2 := hih.2
            generalize parseShortLoop E help total fuel s1 (encodeRunes rest) (i + (encodeRune c).length) none = res2 at h2 ⊢
            obtain ⟨s2, e2⟩ := res2
            cases e2 with
            | none =>
              simp only at h2 ⊢
              rcases h2 with ⟨hnil, _⟩ | ⟨r2, hw, hA⟩
              · exact absurd hnil hrne
              · exact Or.inr ⟨r2, hw, hk.accepts hA⟩
            | some e2 =>
              simp only at h2 ⊢
              intro hu
              obtain ⟨hw, hk2⟩ := h2 hu
              exact ⟨hw, hk.trans hk2⟩


/-- a single short option with an attached argument (`-x=V`, `-xV`) keeps the frame -/
theorem shortSingle_with_argument (E : Env) (help : HelpFn) (s : PS) (c : Nat) (r : ORef) (V : Bytes)
    (hvc : validRune c = true) (hl : s.P.lookupShort s.cmd c = some r) :
    ((parseShortLoop E help (encodeRune c).length ((encodeRune c).length + 1) s (encodeRune c) 0 (some V)).2 = none →
      KeepsFrame s (parseShortLoop E help (encodeRune c).length ((encodeRune c).length + 1) s (encodeRune c) 0 (some V)).1) ∧
    (∀ e, (parseShortLoop E help (encodeRune c).length ((encodeRune c).length + 1) s (encodeRune c) 0 (some V)).2 = some e →
      e.isUnknownFlag = false) := by
  have hne : encodeRune c ≠ [] := by
    have := encodeRune_length_pos c
    intro h; rw [h] at this; simp at this
  have hdec : decodeRune (encodeRune c) = (c, (encodeRune c).length) := by
    have := decodeRune_encodeRune c hvc []
    simpa using this
  rw [parseShortLoop_step E help _ _ s _ 0 (some V) hne]
  simp only [hdec, hl, List.drop_length, parseShortLoop_nil]
  have hk := parseOption_keeps E help s r (decide (0 + runeLen c = (encodeRune c).length) && !(s.P.opt r).optionalArg) (some V) (Or.inl rfl)
  have hnuf := parseOption_not_unknownFlag E help s r (decide (0 + runeLen c = (encodeRune c).length) && !(s.P.opt r).optionalArg) (some V)
  generalize parseOption E help s r (decide (0 + runeLen c = (encodeRune c).length) && !(s.P.opt r).optionalArg) (some V) = res at hk hnuf ⊢
  obtain ⟨s', e⟩ := res
  cases e with
  | some e => exact ⟨fun h => by simp at h, fun e' he' => by simp at he'; rw [← he']; exact hnuf e rfl⟩
  | none => exact ⟨fun _ => hk, fun e' he' => by simp at he'⟩

/-- **One short-option token** (a cluster of well-formed UTF-8, with or without an attached
    argument): the parser's `parseShort` against the completion walk's loop. -/
theorem parseShort_outcome (E : Env) (help : HelpFn) (s : PS) (cs : CS) (hd : SameDecl s.P cs.P) (hc : s.cmd = cs.cmd)
    (c : Nat) (rest : List Nat) (hv : ∀ x ∈ c :: rest, validRune x = true) (argument : Option Bytes)
    (harg : argument.isSome = true → rest = []) :
    ShortOutcome s cs argument.isNone (parseShort E help s (encodeRunes (c :: rest)) argument)
      (compShortWalk cs (encodeRunes (c :: rest)).length ((encodeRunes (c :: rest)).length + 1) (encodeRunes (c :: rest)) 0 none) := by
  have hvc : validRune c = true := hv c (by simp)
  have hne := encodeRunes_ne_nil c rest
  have hdec : decodeRune (encodeRunes (c :: rest)) = (c, (encodeRune c).length) := by
    rw [encodeRunes_cons]; exact decodeRune_encodeRune c hvc _
  have hlen : (encodeRunes (c :: rest)).length = (encodeRune c).length + (encodeRunes rest).length := by
    rw [encodeRunes_cons]; simp
  have hlk : s.P.lookupShort s.cmd c = cs.P.lookupShort cs.cmd c := by rw [hd.lookupShort, hc]
  -- the general case: both loops run over the whole cluster
  have general : (∀ r, cs.P.lookupShort cs.cmd c = some r → (cs.P.opt r).ty.canArgument = true →
        (encodeRunes (c :: rest)).length = (encodeRune c).length) →
      ShortOutcome s cs true
        (parseShortLoop E help (encodeRunes (c :: rest)).length ((encodeRunes (c :: rest)).length + 1) s (encodeRunes (c :: rest)) 0 none)
        (compShortWalk cs (encodeRunes (c :: rest)).length ((encodeRunes (c :: rest)).length + 1) (encodeRunes (c :: rest)) 0 none) := by
    intro hfirst
    obtain ⟨hw2, hm⟩ := shortLoops E help (encodeRunes (c :: rest)).length (c :: rest) ((encodeRunes (c :: rest)).length + 1) s cs 0 none
      hv (by omega) hd hc (by omega)
      (by intro _ c' rest' hcr r hl hca
          injection hcr with h1 h2
          subst h1
          exact hfirst r hl hca)
    unfold ShortOutcome
    generalize parseShortLoop E help (encodeRunes (c :: rest)).length ((encodeRunes (c :: rest)).length + 1) s (encodeRunes (c :: rest)) 0 none = res at hm ⊢
    obtain ⟨s', e⟩ := res
    cases e with
    | none =>
      simp only at hm ⊢
      rcases hm with ⟨hnil, _⟩ | ⟨r, hw, hA⟩
      · cases hnil
      · refine ⟨r, hw, ?_⟩
        rw [hw2]; simpa using hA
    | some e => simp only at hm ⊢; exact hm
  cases harg' : argument with
  | some V =>
    have hr : rest = [] := harg (by rw [harg']; rfl)
    subst hr
    have hname : encodeRunes [c] = encodeRune c := by rw [encodeRunes_cons, encodeRunes_nil]; simp
    unfold parseShort
    simp only [Option.isNone_some, Bool.false_eq_true, if_false, hname]
    have hnee : encodeRune c ≠ [] := by rw [← hname]; exact hne
    have hdece : decodeRune (encodeRune c) = (c, (encodeRune c).length) := by have := hdec; rw [hname] at this; exact this
    rw [compShortWalk_step cs _ _ _ 0 none hnee]
    simp only [hdece]
    cases hl : cs.P.lookupShort cs.cmd c with
    | none =>
      have hl1 : s.P.lookupShort s.cmd c = none := by rw [hlk, hl]
      rw [parseShortLoop_step E help _ _ s _ 0 (some V) hnee]
      simp only [hdece, hl1]
      unfold ShortOutcome
      simp only
      exact fun _ => ⟨trivial, KeepsFrame.refl s⟩
    | some r =>
      have hl1 : s.P.lookupShort s.cmd c = some r := by rw [hlk, hl]
      obtain ⟨h1, h2⟩ := shortSingle_with_argument E help s c r V hvc hl1
      simp only [ne_eq, not_true_eq_false, decide_false, Bool.and_false, Bool.false_eq_true, if_false, List.drop_length,
        compShortWalk_nil]
      unfold ShortOutcome
      generalize parseShortLoop E help (encodeRune c).length ((encodeRune c).length + 1) s (encodeRune c) 0 (some V) = res at h1 h2 ⊢
      obtain ⟨s', e⟩ := res
      cases e with
      | none =>
        simp only at h1 ⊢
        exact ⟨r, rfl, by simpa using (h1 trivial).toAccepts⟩
      | some e =>
        simp only at h2 ⊢
        intro hu; rw [h2 e rfl] at hu; cases hu
  | none =>
    unfold parseShort
    simp only [Option.isNone_none, if_true]
    unfold splitShortConcatArg
    simp only [hdec]
    by_cases hsame : (encodeRune c).length = (encodeRunes (c :: rest)).length
    · simp only [hsame, if_true]
      exact general (fun _ _ _ => hsame.symm)
    · simp only [hsame, if_false]
      rw [hlk]
      cases hl : cs.P.lookupShort cs.cmd c with
      | none => simp only; exact general (fun r hr _ => by rw [hl] at hr; cases hr)
      | some r =>
        simp only
        obtain ⟨hty, hoa⟩ := optTy_of_sameDecl hd r
        cases hca : (s.P.opt r).ty.canArgument with
        | false =>
          simp only [Bool.false_eq_true, if_false]
          exact general (fun r' hr' hca' => by
            rw [hl] at hr'; cases hr'
            rw [← hty, hca] at hca'; cases hca')
        | true =>
          simp only [if_true]
          have hl1 : s.P.lookupShort s.cmd c = some r := by rw [hlk, hl]
          obtain ⟨h1, h2⟩ := shortSingle_with_argument E help s c r ((encodeRunes (c :: rest)).drop (encodeRune c).length) hvc hl1
          rw [compShortWalk_step cs _ _ _ 0 none hne]
          simp only [hdec, hl]
          have hcsca : (cs.P.opt r).ty.canArgument = true := by rw [← hty]; exact hca
          have hne2 : (encodeRunes (c :: rest)).length ≠ (encodeRune c).length := fun h => hsame h.symm
          simp only [hcsca, hne2, ne_eq, not_false_eq_true, decide_true, Bool.and_self, if_true]
          unfold ShortOutcome
          generalize parseShortLoop E help (encodeRune c).length ((encodeRune c).length + 1) s (encodeRune c) 0
            (some ((encodeRunes (c :: rest)).drop (encodeRune c).length)) = res at h1 h2 ⊢
          obtain ⟨s', e⟩ := res
          cases e with
          | none =>
            simp only at h1 ⊢
            exact ⟨r, rfl, by simpa using (h1 trivial).toAccepts⟩
          | some e =>
            simp only at h2 ⊢
            intro hu; rw [h2 e rfl] at hu; cases hu



/-- a typed word the walk theorem speaks about: a plain word, a long option, or a cluster of short
    options written in well-formed UTF-8 -/
def WalkWord (w : Bytes) : Prop :=
  argumentIsOption w = false ∨ (stripOptionPrefix w).2.2 = true ∨
  ∃ c rest, (∀ x ∈ c :: rest, validRune x = true) ∧ (stripOptionPrefix w).2.1 = encodeRunes (c :: rest)

theorem LongOrPlain.walkWord {w : Bytes} (h : LongOrPlain w) : WalkWord w := by
  rcases h with h | h
  · exact Or.inl h
  · exact Or.inr (Or.inl h)

/-- a short cluster is split at `=` only directly after its first character -/
theorem splitOption_short (c : Nat) (rest : List Nat) (hv : validRune c = true) :
    splitOption (encodeRunes (c :: rest)) false = (encodeRunes (c :: rest), [], none) ∨
    ∃ V, splitOption (encodeRunes (c :: rest)) false = (encodeRunes [c], [0x3D], some V) := by
  have hdec : decodeRune (encodeRunes (c :: rest)) = (c, (encodeRune c).length) := by
    rw [encodeRunes_cons]; exact decodeRune_encodeRune c hv _
  unfold splitOption
  cases indexByte 0x3D (encodeRunes (c :: rest)) with
  | none => exact Or.inl rfl
  | some pos =>
    simp only [Bool.false_or, hdec, decide_eq_true_eq]
    by_cases hp : pos = (encodeRune c).length
    · right
      simp only [hp, if_true]
      refine ⟨(encodeRunes (c :: rest)).drop ((encodeRune c).length + 1), ?_⟩
      congr 1
      rw [encodeRunes_cons, encodeRunes_cons, encodeRunes_nil]; simp
    · left; simp only [hp, if_false]

/-- what the walk looks up for an option token -/
def walkOpt (cs : CS) (name : Bytes) (islong : Bool) : Option ORef × Bool :=
  if islong then (cs.P.lookupLong cs.cmd name, true) else compShortWalk cs name.length (name.length + 1) name 0 none

/-- the walk's step on an option token (long or short), when more than one word follows it -/
theorem compWalk_option (f : Nat) (cs : CS) (opt : Option ORef) (arg x : Bytes) (xs : List Bytes) (pfx name0 name split : Bytes)
    (argument : Option Bytes) (islong : Bool)
    (h : cs.args = arg :: x :: xs) (hdd : (cs.P.opts.passDoubleDash && arg = B "--") = false)
    (hyes : argumentIsOption arg = true) (hstrip : stripOptionPrefix arg = (pfx, name0, islong))
    (hsplit : splitOption name0 islong = (name, split, argument)) :
    compWalk (f + 1) cs opt =
      match (walkOpt { cs with args := x :: xs } name islong).1 with
      | none =>
        if cs.P.opts.ignoreUnknown then compWalk f ({ cs with args := x :: xs } : CS).passThrough opt
        else if argument.isSome then compWalk f { cs with args := x :: xs } opt
        else if cs.P.opts.passAfterNonOption then (({ cs with args := x :: xs } : CS).skipPositional ((x :: xs).length - 1), none, false)
        else compWalk f { cs with args := x :: xs } opt
      | some r =>
        if (argument.isNone && (cs.P.opt r).ty.canArgument && !(cs.P.opt r).optionalArg &&
            (walkOpt { cs with args := x :: xs } name islong).2) = true then
          (if xs = [] then compWalk f { cs with args := x :: xs } (some r)
           else compWalk f { cs with args := xs } opt)
        else compWalk f { cs with args := x :: xs } opt := by
  conv => lhs; unfold compWalk
  simp only [h, hdd, hyes, Bool.false_eq_true, if_false, if_true, hstrip, hsplit]
  unfold walkOpt
  cases islong with
  | true =>
    simp only [if_true]
    cases hl : cs.P.lookupLong cs.cmd name with
    | none => rfl
    | some r =>
      simp only [Bool.and_true]
      cases xs with
      | nil => simp
      | cons y ys => simp
  | false =>
    simp only [Bool.false_eq_true, if_false]
    generalize compShortWalk { cs with args := x :: xs } name.length (name.length + 1) name 0 none = w
    obtain ⟨o, canarg⟩ := w
    cases o with
    | none => rfl
    | some r =>
      simp only
      cases xs with
      | nil => simp
      | cons y ys => simp

/-- **One option token, long or short**: the parser's step against what the walk computes. -/
theorem token_outcome (E : Env) (help : HelpFn) (s : PS) (cs : CS) (hd : SameDecl s.P cs.P) (hc : s.cmd = cs.cmd)
    (arg pfx name0 name split : Bytes) (argument : Option Bytes) (islong : Bool)
    (hw : WalkWord arg) (hyes : argumentIsOption arg = true)
    (hstrip : stripOptionPrefix arg = (pfx, name0, islong))
    (hsplit : splitOption name0 islong = (name, split, argument)) :
    ShortOutcome s cs argument.isNone
      (if islong then parseLong E help s name argument else parseShort E help s name argument)
      (walkOpt cs name islong) := by
  unfold walkOpt
  cases islong with
  | true =>
    simp only [if_true]
    have hll : s.P.lookupLong s.cmd name = cs.P.lookupLong cs.cmd name := by rw [hd.lookupLong, hc]
    unfold ShortOutcome parseLong
    rw [hll]
    cases hl : cs.P.lookupLong cs.cmd name with
    | none => simp only; exact fun _ => ⟨trivial, KeepsFrame.refl s⟩
    | some r =>
      simp only
      have hacc := parseOption_accept E help s r argument
      have hnuf := parseOption_not_unknownFlag E help s r (!(s.P.opt r).optionalArg) argument
      obtain ⟨hty, hoa⟩ := optTy_of_sameDecl hd r
      generalize parseOption E help s r (!(s.P.opt r).optionalArg) argument = res at hacc hnuf ⊢
      obtain ⟨s', e⟩ := res
      cases e with
      | some e => simp only; intro hu; rw [hnuf e rfl] at hu; cases hu
      | none =>
        simp only at hacc ⊢
        refine ⟨r, rfl, ?_⟩
        have hA := hacc trivial
        have : (argument.isNone && (cs.P.opt r).ty.canArgument && !(cs.P.opt r).optionalArg && true) =
            ((s.P.opt r).ty.canArgument && argument.isNone && !(s.P.opt r).optionalArg) := by
          rw [← hty, ← hoa]; cases argument.isNone <;> cases (s.P.opt r).ty.canArgument <;> simp
        rw [this]; exact hA
  | false =>
    simp only [Bool.false_eq_true, if_false]
    have hshort : ∃ c rest, (∀ x ∈ c :: rest, validRune x = true) ∧ name0 = encodeRunes (c :: rest) := by
      rcases hw with h | h | h
      · rw [hyes] at h; cases h
      · rw [hstrip] at h; cases h
      · obtain ⟨c, rest, hv, hn⟩ := h
        rw [hstrip] at hn
        exact ⟨c, rest, hv, hn⟩
    obtain ⟨c, rest, hv, hn⟩ := hshort
    subst hn
    rcases splitOption_short c rest (hv c (by simp)) with h | ⟨V, h⟩
    · rw [h] at hsplit
      injection hsplit with h1 h2
      injection h2 with h2 h3
      subst h1; subst h3
      exact parseShort_outcome E help s cs hd hc c rest hv none (fun h => by cases h)
    · rw [h] at hsplit
      injection hsplit with h1 h2
      injection h2 with h2 h3
      subst h1; subst h3
      exact parseShort_outcome E help s cs hd hc c [] (fun x hx => hv x (by simp at hx; simp [hx])) (some V) (fun _ => rfl)

end GoFlags
