/-
  `bytesLe` is a total order on byte strings; insertion sort with it produces a sorted
  permutation, and the result does not depend on the order of the input.
-/
import GoFlags.Parse

namespace GoFlags
open Bytes

theorem bytesLe_refl (a : Bytes) : bytesLe a a = true := by
  induction a with
  | nil => rfl
  | cons x xs ih => simp [bytesLe, ih]

theorem bytesLe_total (a b : Bytes) : bytesLe a b = true ∨ bytesLe b a = true := by
  induction a generalizing b with
  | nil => left; rfl
  | cons x xs ih =>
    cases b with
    | nil => right; rfl
    | cons y ys =>
      simp only [bytesLe]
      by_cases h1 : x < y
      · simp [h1]
      · by_cases h2 : x > y
        · right; simp [h2]
        · have : x = y := by omega
          subst this
          simp only [Nat.lt_irrefl, if_false, gt_iff_lt]
          exact ih ys

theorem bytesLe_antisymm (a b : Bytes) (h1 : bytesLe a b = true) (h2 : bytesLe b a = true) : a = b := by
  induction a generalizing b with
  | nil => cases b with
    | nil => rfl
    | cons y ys => simp [bytesLe] at h2
  | cons x xs ih =>
    cases b with
    | nil => simp [bytesLe] at h1
    | cons y ys =>
      simp only [bytesLe] at h1 h2
      by_cases hxy : x < y
      · have : ¬ y < x := by omega
        simp [this, hxy] at h2
      · by_cases hyx : y < x
        · simp [hxy, hyx] at h1
        · have : x = y := by omega
          subst this
          simp only [Nat.lt_irrefl, if_false, gt_iff_lt] at h1 h2
          rw [ih ys h1 h2]

theorem bytesLe_trans (a b c : Bytes) (h1 : bytesLe a b = true) (h2 : bytesLe b c = true) : bytesLe a c = true := by
  induction a generalizing b c with
  | nil => rfl
  | cons x xs ih =>
    cases b with
    | nil => simp [bytesLe] at h1
    | cons y ys =>
      cases c with
      | nil => simp [bytesLe] at h2
      | cons z zs =>
        simp only [bytesLe] at h1 h2 ⊢
        by_cases hxy : x < y
        · by_cases hyz : y < z
          · have : x < z := by omega
            simp [this]
          · by_cases hzy : z < y
            · simp [hyz, hzy] at h2
            · have : y = z := by omega
              subst this; simp [hxy]
        · by_cases hyx : y < x
          · simp [hxy, hyx] at h1
          · have : x = y := by omega
            subst this
            simp only [Nat.lt_irrefl, if_false, gt_iff_lt] at h1
            by_cases hxz : x < z
            · simp [hxz]
            · by_cases hzx : z < x
              · simp [hxz, hzx] at h2
              · have : x = z := by omega
                subst this
                simp only [Nat.lt_irrefl, if_false, gt_iff_lt] at h2 ⊢
                exact ih ys zs h1 h2

/-- sorted with respect to `bytesLe` -/
def SortedB : List Bytes → Prop
  | [] => True
  | [_] => True
  | a :: b :: r => bytesLe a b = true ∧ SortedB (b :: r)

theorem SortedB_tail {a : Bytes} {l : List Bytes} (h : SortedB (a :: l)) : SortedB l := by
  cases l with
  | nil => trivial
  | cons b r => exact h.2

theorem SortedB_head_le {a : Bytes} {l : List Bytes} (h : SortedB (a :: l)) : ∀ x ∈ l, bytesLe a x = true := by
  induction l generalizing a with
  | nil => intro x hx; cases hx
  | cons b r ih =>
    intro x hx
    rcases List.mem_cons.mp hx with rfl | hx
    · exact h.1
    · exact bytesLe_trans _ _ _ h.1 (ih h.2 x hx)

theorem insertSorted_sorted (x : Bytes) (l : List Bytes) (h : SortedB l) : SortedB (insertSorted x l) := by
  induction l with
  | nil => trivial
  | cons y ys ih =>
    unfold insertSorted
    by_cases hxy : bytesLe x y = true
    · simp only [hxy, if_true]; exact ⟨hxy, h⟩
    · simp only [hxy, if_false]
      have hyx : bytesLe y x = true := by
        rcases bytesLe_total x y with h' | h'
        · exact absurd h' hxy
        · exact h'
      have ih' := ih (SortedB_tail h)
      cases hys : ys with
      | nil => simp [insertSorted, SortedB, hyx]
      | cons z zs =>
        rw [hys] at ih' h
        unfold insertSorted at ih' ⊢
        by_cases hxz : bytesLe x z = true
        · simp only [hxz, if_true] at ih' ⊢
          exact ⟨hyx, ih'⟩
        · simp only [hxz, if_false] at ih' ⊢
          exact ⟨h.1, ih'⟩

theorem sortStrings_sorted (l : List Bytes) : SortedB (sortStrings l) := by
  induction l with
  | nil => trivial
  | cons x xs ih => unfold sortStrings; simp only [List.foldr_cons]; exact insertSorted_sorted x _ ih

theorem insertSorted_perm' (x : Bytes) (l : List Bytes) : (insertSorted x l).Perm (x :: l) := by
  induction l with
  | nil => simp [insertSorted]
  | cons y ys ih =>
    unfold insertSorted
    split
    · exact List.Perm.refl _
    · exact (List.Perm.cons y ih).trans (List.Perm.swap x y ys)

theorem sortStrings_perm' (l : List Bytes) : (sortStrings l).Perm l := by
  induction l with
  | nil => simp [sortStrings]
  | cons x xs ih =>
    unfold sortStrings
    simp only [List.foldr_cons]
    exact (insertSorted_perm' x _).trans (List.Perm.cons x ih)

/-- two sorted lists with the same elements are equal -/
theorem sorted_perm_eq (l1 l2 : List Bytes) (h1 : SortedB l1) (h2 : SortedB l2) (hp : l1.Perm l2) : l1 = l2 := by
  induction l1 generalizing l2 with
  | nil => exact (List.Perm.nil_eq hp)
  | cons a r ih =>
    cases l2 with
    | nil => exact absurd hp.symm (by simp)
    | cons b s =>
      have hab : a = b := by
        have ha : a ∈ b :: s := hp.subset (by simp)
        have hb : b ∈ a :: r := hp.symm.subset (by simp)
        rcases List.mem_cons.mp ha with h | h
        · exact h
        · rcases List.mem_cons.mp hb with h' | h'
          · exact h'.symm
          · exact bytesLe_antisymm _ _ (SortedB_head_le h1 b h') (SortedB_head_le h2 a h)
      subst hab
      rw [ih s (SortedB_tail h1) (SortedB_tail h2) (List.Perm.cons_inv hp)]

/-- **Order independence.** Whatever order a map's keys (or any other collection) are handed over
    in, the sorted result is the same. -/
theorem sortStrings_order_independent (l1 l2 : List Bytes) (h : l1.Perm l2) : sortStrings l1 = sortStrings l2 :=
  sorted_perm_eq _ _ (sortStrings_sorted l1) (sortStrings_sorted l2)
    ((sortStrings_perm' l1).trans (h.trans (sortStrings_perm' l2).symm))

end GoFlags
