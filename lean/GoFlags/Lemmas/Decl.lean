/-
  Declarations versus state.  `Parser.decl` erases everything the parser stores at run time
  (option values and marks, positional values, the active command); what is left are the
  declarations.  Lookups, scopes and namespaces are functions of the declarations only, and no
  step of the argument loop changes them.
-/
import GoFlags.Lemmas.Tables
import GoFlags.Lemmas.ParseBasics
namespace GoFlags
open Bytes

/-- the declared part of an option: everything but its run-time state -/
def Opt.decl (o : Opt) : Opt :=
  { o with val := .sc (.str []), isSet := false, isSetDefault := false, preventDefault := false,
           clearRef := false, iniQuote := false, defaultLiteral := [] }
def Grp.decl (g : Grp) : Grp := { g with opts := g.opts.map Opt.decl }
def ArgD.decl (a : ArgD) : ArgD := { a with val := .sc (.str []) }
def Cmd.decl (c : Cmd) : Cmd :=
  { c with groups := c.groups.map Grp.decl, args := c.args.map ArgD.decl, active := none }
/-- the declarations of a parser: its tables with all run-time state (values, set marks, the
    active command) erased -/
def Parser.decl (P : Parser) : Parser := { P with cmds := P.cmds.map Cmd.decl }

theorem Cmd.decl_default : ({} : Cmd).decl = {} := rfl
theorem Grp.decl_default : ({} : Grp).decl = {} := rfl
theorem Opt.decl_default : ({} : Opt).decl = {} := rfl
theorem ArgD.decl_default : ({} : ArgD).decl = {} := rfl

theorem getD_map_default {α β} (f : α → β) (l : List α) (i : Nat) (d : α) :
    (l.map f).getD i (f d) = f (l.getD i d) := by
  simp [List.getD_eq_getElem?_getD, List.getElem?_map]

theorem Parser.decl_cmd (P : Parser) (i : Nat) : P.decl.cmd i = (P.cmd i).decl := by
  unfold Parser.cmd Parser.decl
  simp only
  rw [← Cmd.decl_default, getD_map_default]
  rfl

theorem Parser.decl_cmdSizes (P : Parser) : P.decl.cmdSizes = P.cmdSizes := by
  unfold Parser.cmdSizes Parser.decl
  simp [List.map_map, Function.comp_def, Cmd.decl]

theorem Cmd.decl_grpSizes (c : Cmd) : c.decl.grpSizes = c.grpSizes := by
  unfold Cmd.grpSizes Cmd.decl
  simp [List.map_map, Function.comp_def, Grp.decl]

theorem Cmd.decl_group (c : Cmd) (j : Nat) : c.decl.groups.getD j {} = (c.groups.getD j {}).decl := by
  unfold Cmd.decl
  simp only
  rw [← Grp.decl_default, getD_map_default]
  rfl

theorem Parser.decl_opt (P : Parser) (r : ORef) : P.decl.opt r = (P.opt r).decl := by
  unfold Parser.opt
  rw [Parser.decl_cmd, Cmd.decl_group]
  unfold Grp.decl
  simp only
  rw [← Opt.decl_default, getD_map_default]
  rfl

theorem Parser.decl_chain (P : Parser) (i : Nat) : P.decl.chain i = P.chain i := by
  unfold Parser.chain; rw [Parser.decl_cmdSizes]
theorem Parser.decl_subs (P : Parser) (i : Nat) : P.decl.subs i = P.subs i := by
  unfold Parser.subs; rw [Parser.decl_cmdSizes]

theorem Cmd.decl_orefs (c : Cmd) (ci : Nat) : c.decl.orefs ci = c.orefs ci := by
  unfold Cmd.orefs Cmd.decl
  simp only [List.zipIdx_map, List.flatMap_map]
  congr 1
  funext ⟨g, gi⟩
  simp [Grp.decl]

theorem Cmd.decl_headD (c : Cmd) : c.decl.groups.headD {} = (c.groups.headD {}).decl := by
  unfold Cmd.decl
  cases c.groups <;> rfl

theorem Parser.decl_nsPath (P : Parser) (ci gi : Nat) (sel : Grp → Bytes) (hsel : ∀ g : Grp, sel g.decl = sel g) :
    P.decl.nsPath ci gi sel = P.nsPath ci gi sel := by
  unfold Parser.nsPath
  simp only [Parser.decl_chain, Parser.decl_cmd, Cmd.decl_headD, Cmd.decl_grpSizes, Cmd.decl_group, hsel]

theorem Parser.decl_longNS (P : Parser) (r : ORef) : P.decl.longNS r = P.longNS r := by
  unfold Parser.longNS
  simp only [Parser.decl_opt]
  rw [Parser.decl_nsPath P r.c r.g (·.ns) (fun g => rfl)]
  rfl

theorem Parser.decl_envKeyNS (P : Parser) (r : ORef) : P.decl.envKeyNS r = P.envKeyNS r := by
  unfold Parser.envKeyNS
  simp only [Parser.decl_opt]
  rw [Parser.decl_nsPath P r.c r.g (·.envNs) (fun g => rfl)]
  rfl

theorem Parser.decl_lookupLong (P : Parser) (ci : Nat) (n : Bytes) : P.decl.lookupLong ci n = P.lookupLong ci n := by
  unfold Parser.lookupLong
  simp only [Parser.decl_chain, Parser.decl_cmd, Cmd.decl_orefs, Parser.decl_opt, Parser.decl_longNS]
  rfl

theorem Parser.decl_lookupShort (P : Parser) (ci : Nat) (x : Nat) : P.decl.lookupShort ci x = P.lookupShort ci x := by
  unfold Parser.lookupShort
  simp only [Parser.decl_chain, Parser.decl_cmd, Cmd.decl_orefs, Parser.decl_opt]
  rfl

theorem Parser.decl_lookupCmd (P : Parser) (ci : Nat) (n : Bytes) : P.decl.lookupCmd ci n = P.lookupCmd ci n := by
  unfold Parser.lookupCmd
  simp only [Parser.decl_subs, Parser.decl_cmd]
  rfl

/-- two parsers with the same declarations -/
def SameDecl (P Q : Parser) : Prop := P.decl = Q.decl

theorem SameDecl.refl (P : Parser) : SameDecl P P := rfl
theorem SameDecl.symm {P Q : Parser} (h : SameDecl P Q) : SameDecl Q P := Eq.symm h
theorem SameDecl.trans {P Q R : Parser} (h1 : SameDecl P Q) (h2 : SameDecl Q R) : SameDecl P R := Eq.trans h1 h2

/-- **Lookups depend on the declarations only**: whatever values have been stored since. -/
theorem SameDecl.lookupLong {P Q : Parser} (h : SameDecl P Q) (ci : Nat) (n : Bytes) :
    P.lookupLong ci n = Q.lookupLong ci n := by
  rw [← Parser.decl_lookupLong P, ← Parser.decl_lookupLong Q, h]
theorem SameDecl.lookupShort {P Q : Parser} (h : SameDecl P Q) (ci : Nat) (x : Nat) :
    P.lookupShort ci x = Q.lookupShort ci x := by
  rw [← Parser.decl_lookupShort P, ← Parser.decl_lookupShort Q, h]
theorem SameDecl.lookupCmd {P Q : Parser} (h : SameDecl P Q) (ci : Nat) (n : Bytes) :
    P.lookupCmd ci n = Q.lookupCmd ci n := by
  rw [← Parser.decl_lookupCmd P, ← Parser.decl_lookupCmd Q, h]
theorem SameDecl.subs {P Q : Parser} (h : SameDecl P Q) (ci : Nat) : P.subs ci = Q.subs ci := by
  rw [← Parser.decl_subs P, ← Parser.decl_subs Q, h]
theorem SameDecl.chain {P Q : Parser} (h : SameDecl P Q) (ci : Nat) : P.chain ci = Q.chain ci := by
  rw [← Parser.decl_chain P, ← Parser.decl_chain Q, h]
theorem SameDecl.opt {P Q : Parser} (h : SameDecl P Q) (r : ORef) : (P.opt r).decl = (Q.opt r).decl := by
  rw [← Parser.decl_opt P, ← Parser.decl_opt Q, h]
theorem SameDecl.opts {P Q : Parser} (h : SameDecl P Q) : P.opts = Q.opts := by
  have : P.decl.opts = Q.decl.opts := by rw [h]
  exact this
theorem SameDecl.cmdDecl {P Q : Parser} (h : SameDecl P Q) (i : Nat) : (P.cmd i).decl = (Q.cmd i).decl := by
  rw [← Parser.decl_cmd P, ← Parser.decl_cmd Q, h]

/-! ### state updates keep the declarations -/

theorem listModify_map {α β} (l : List α) (i : Nat) (f : α → α) (g : α → β) (h : ∀ a, g (f a) = g a) :
    (listModify l i f).map g = l.map g := by
  induction l generalizing i with
  | nil => rfl
  | cons a r ih =>
    cases i with
    | zero => simp [listModify, h]
    | succ i => simp [listModify, ih]

theorem Parser.decl_modCmd (P : Parser) (i : Nat) (f : Cmd → Cmd) (h : ∀ c, (f c).decl = c.decl) :
    SameDecl (P.modCmd i f) P := by
  unfold SameDecl Parser.decl Parser.modCmd
  simp only
  rw [listModify_map _ _ _ _ h]

theorem Parser.decl_modOpt (P : Parser) (r : ORef) (f : Opt → Opt) (h : ∀ o, (f o).decl = o.decl) :
    SameDecl (P.modOpt r f) P := by
  unfold Parser.modOpt
  apply Parser.decl_modCmd
  intro c
  unfold Cmd.decl
  simp only
  congr 1
  apply listModify_map
  intro g
  unfold Grp.decl
  simp only
  congr 1
  exact listModify_map _ _ _ _ h

theorem Parser.decl_modArg (P : Parser) (a : Nat × Nat) (f : ArgD → ArgD) (h : ∀ x, (f x).decl = x.decl) :
    SameDecl (P.modArg a f) P := by
  unfold Parser.modArg
  apply Parser.decl_modCmd
  intro c
  unfold Cmd.decl
  simp only
  congr 1
  exact listModify_map _ _ _ _ h

theorem Parser.decl_setActive (P : Parser) (i : Nat) (a : Option Nat) :
    SameDecl (P.modCmd i fun c => { c with active := a }) P :=
  Parser.decl_modCmd P i _ (fun _ => rfl)

/-! ### the parse functions keep the declarations -/

theorem Opt.markSet_decl (o : Opt) : o.markSet.decl = o.decl := by
  unfold Opt.markSet Opt.empty
  simp only
  split <;> (try split) <;> rfl

theorem Opt.empty_decl (o : Opt) : o.empty.decl = o.decl := by
  unfold Opt.empty; split <;> rfl

theorem listModify_map_at {α β} (l : List α) (i : Nat) (f : α → α) (g : α → β) (d : α)
    (h : g (f (l.getD i d)) = g (l.getD i d)) : (listModify l i f).map g = l.map g := by
  induction l generalizing i with
  | nil => rfl
  | cons a r ih =>
    cases i with
    | zero => simp [listModify] at h ⊢; exact h
    | succ i => simp [listModify] at h ⊢; exact ih i h

/-- a state-only change of the one option `r` keeps the declarations -/
theorem Parser.decl_modOpt_at (P : Parser) (r : ORef) (f : Opt → Opt) (h : (f (P.opt r)).decl = (P.opt r).decl) :
    SameDecl (P.modOpt r f) P := by
  unfold Parser.modOpt SameDecl Parser.decl Parser.modCmd
  simp only
  congr 1
  apply listModify_map_at _ _ _ _ ({} : Cmd)
  unfold Cmd.decl
  simp only
  congr 1
  apply listModify_map_at _ _ _ _ ({} : Grp)
  unfold Grp.decl
  simp only
  congr 1
  apply listModify_map_at _ _ _ _ ({} : Opt)
  exact h

theorem optSet_decl (E : Env) (help : HelpFn) (P : Parser) (r : ORef) (v : Option Bytes) (log : List Event) :
    SameDecl (optSet E help P r v log).1 P := by
  have h1 : SameDecl (P.modOpt r fun _ => (P.opt r).markSet) P :=
    Parser.decl_modOpt_at P r _ (Opt.markSet_decl _)
  unfold optSet
  simp only
  cases choiceRejected (P.opt r).markSet v
  · simp only [Bool.false_eq_true, if_false]
    cases (P.opt r).markSet.ty.isFunc
    · simp only [Bool.false_eq_true, if_false]
      split
      · refine SameDecl.trans ?_ h1; apply Parser.decl_modOpt; intro o; rfl
      · refine SameDecl.trans ?_ h1; apply Parser.decl_modOpt; intro o; rfl
    · simp only [if_true]; rw [optCall_parser]; exact h1
  · exact h1

theorem setOptionalValues_decl (E : Env) (help : HelpFn) (r : ORef) (vs : List Bytes) (P : Parser) (log : List Event) :
    SameDecl (setOptionalValues E help r vs P log).1 P := by
  induction vs generalizing P log with
  | nil => exact SameDecl.refl _
  | cons v vs ih =>
    unfold setOptionalValues
    have h := optSet_decl E help P r (some v) log
    generalize optSet E help P r (some v) log = res at h
    obtain ⟨P', log', e⟩ := res
    cases e with
    | some e => exact h
    | none => exact (ih P' log').trans h

theorem optSetDefault_decl (E : Env) (help : HelpFn) (P : Parser) (r : ORef) (v : Option Bytes) (log : List Event) :
    SameDecl (optSetDefault E help P r v log).1 P := by
  unfold optSetDefault
  split
  · exact SameDecl.refl _
  · have h := optSet_decl E help P r v log
    generalize optSet E help P r v log = res at h
    obtain ⟨P', log', e⟩ := res
    cases e with
    | some e => exact h
    | none => refine SameDecl.trans ?_ h; apply Parser.decl_modOpt; intro o; rfl

theorem setDefaults_decl (E : Env) (help : HelpFn) (r : ORef) (ds : List Bytes) (P : Parser) (log : List Event) :
    SameDecl (setDefaults E help r ds P log).1 P := by
  induction ds generalizing P log with
  | nil => exact SameDecl.refl _
  | cons d ds ih =>
    unfold setDefaults
    have h := optSetDefault_decl E help P r (some d) log
    generalize optSetDefault E help P r (some d) log = res at h
    obtain ⟨P', log', e⟩ := res
    cases e with
    | some e => exact h
    | none => exact (ih P' log').trans h

theorem optClearDefault_decl (E : Env) (help : HelpFn) (P : Parser) (r : ORef) (log : List Event) :
    SameDecl (optClearDefault E help P r log).1 P := by
  unfold optClearDefault
  have h1 : SameDecl (P.modOpt r fun o => { o with isSetDefault := true }) P := by
    apply Parser.decl_modOpt; intro o; rfl
  have h2 : SameDecl ((P.modOpt r fun o => { o with isSetDefault := true }).modOpt r Opt.empty) P :=
    (Parser.decl_modOpt _ r _ Opt.empty_decl).trans h1
  split
  · exact SameDecl.refl _
  · simp only
    split
    · exact (setDefaults_decl E help r _ _ log).trans h2
    · split
      · exact h2
      · exact h1

theorem addArgs_decl (E : Env) (s : PS) (as : List Bytes) : SameDecl (s.addArgs E as).1.P s.P := by
  fun_induction PS.addArgs E s as with
  | case1 s => exact SameDecl.refl _
  | case2 s a as hpos => exact SameDecl.refl _
  | case3 s a as p ps hpos ad m hconv P => apply Parser.decl_modArg; intro x; rfl
  | case4 s a as p ps hpos ad v hconv P ih => refine ih.trans ?_; apply Parser.decl_modArg; intro x; rfl

theorem finishSet_decl (s : PS) (r : ORef) (res : Parser × List Event × Option GoErr) (h : SameDecl res.1 s.P) :
    SameDecl (finishSet s r res).1.P s.P := h

theorem takeArgument_P (s : PS) (r : ORef) (argument : Option Bytes) : (takeArgument s r argument).1.P = s.P := by
  unfold takeArgument
  cases argument with
  | some a => rfl
  | none =>
    simp only
    have hp : s.pop.1.P = s.P := by unfold PS.pop; split <;> rfl
    generalize s.pop = q at hp
    obtain ⟨s', a⟩ := q
    simp only at hp ⊢
    split
    · exact hp
    · split <;> exact hp

theorem parseOption_decl (E : Env) (help : HelpFn) (s : PS) (r : ORef) (canarg : Bool) (argument : Option Bytes) :
    SameDecl (parseOption E help s r canarg argument).1.P s.P := by
  unfold parseOption
  simp only
  split
  · split
    · exact SameDecl.refl _
    · exact optSet_decl E help s.P r none s.log
  · split
    · have hP := takeArgument_P s r argument
      generalize takeArgument s r argument = t at hP
      obtain ⟨s', a, e⟩ := t
      simp only at hP
      cases e with
      | some e => simp only; rw [hP]; exact SameDecl.refl _
      | none =>
        simp only
        split
        · simp only; rw [hP]; exact SameDecl.refl _
        · have := optSet_decl E help s'.P r (some ‹Bytes›) s'.log
          unfold finishSet
          simp only
          rw [← hP]
          exact this
    · split
      · exact (setOptionalValues_decl E help r _ _ s.log).trans (Parser.decl_modOpt _ r _ Opt.empty_decl)
      · exact SameDecl.refl _

theorem parseLong_decl (E : Env) (help : HelpFn) (s : PS) (name : Bytes) (argument : Option Bytes) :
    SameDecl (parseLong E help s name argument).1.P s.P := by
  unfold parseLong
  split
  · exact parseOption_decl ..
  · exact SameDecl.refl _

theorem parseShortLoop_decl (E : Env) (help : HelpFn) (total fuel : Nat) (s : PS) (opt : Bytes) (i : Nat)
    (argument : Option Bytes) : SameDecl (parseShortLoop E help total fuel s opt i argument).1.P s.P := by
  induction fuel generalizing s opt i argument with
  | zero => exact SameDecl.refl _
  | succ fuel ih =>
    cases opt with
    | nil => exact SameDecl.refl _
    | cons b rest =>
      unfold parseShortLoop
      simp only
      split
      · next r _ =>
        have h := parseOption_decl E help s r (decide (i + runeLen (decodeRune (b :: rest)).1 = total) && !(s.P.opt r).optionalArg) argument
        generalize parseOption E help s r (decide (i + runeLen (decodeRune (b :: rest)).1 = total) && !(s.P.opt r).optionalArg) argument = res at h
        obtain ⟨s', e⟩ := res
        cases e with
        | some e => exact h
        | none => exact (ih s' _ _ none).trans h
      · exact SameDecl.refl _

theorem parseShort_decl (E : Env) (help : HelpFn) (s : PS) (optname : Bytes) (argument : Option Bytes) :
    SameDecl (parseShort E help s optname argument).1.P s.P := by
  unfold parseShort
  exact parseShortLoop_decl ..

theorem PS.fill_P (s : PS) (ci : Nat) : (s.fill ci).P = s.P := rfl

theorem parseNonOption_decl (E : Env) (s : PS) : SameDecl (parseNonOption E s).1.P s.P := by
  unfold parseNonOption
  simp only
  split
  · exact addArgs_decl E s [s.arg]
  · split
    · split
      · exact Parser.decl_setActive _ _ _
      · split <;> exact addArgs_decl E s [s.arg]
    · exact addArgs_decl E s [s.arg]

theorem pop_P (s : PS) : s.pop.1.P = s.P := by unfold PS.pop; split <;> rfl

/-- **The argument loop never changes a declaration**: whatever it stores, the tables of names,
    types and structure at the end are those at the start. -/
theorem parseLoop_decl (E : Env) (help : HelpFn) (fuel : Nat) (s : PS) :
    SameDecl (parseLoop E help fuel s).P s.P := by
  induction fuel generalizing s with
  | zero => exact SameDecl.refl _
  | succ fuel ih =>
    unfold parseLoop
    split
    · exact SameDecl.refl _
    · have hp := pop_P s
      generalize s.pop = q at hp
      obtain ⟨s1, arg⟩ := q
      simp only at hp ⊢
      split
      · rw [← hp]; exact addArgs_decl E s1 s1.args
      · split
        · split
          · have h := addArgs_decl E s1 [s1.arg]
            generalize s1.addArgs E [s1.arg] = res at h
            obtain ⟨s2, e⟩ := res
            cases e with
            | some e => simp only; rw [← hp]; exact h
            | none => simp only; rw [← hp]; exact (addArgs_decl E s2 s2.args).trans h
          · have h := parseNonOption_decl E s1
            generalize parseNonOption E s1 = res at h
            obtain ⟨s2, stop⟩ := res
            cases stop with
            | true => simp only; rw [← hp]; exact h
            | false => simp only; rw [← hp]; exact (ih s2).trans h
        · generalize hso : stripOptionPrefix arg = so
          obtain ⟨pfx, optname0, islong⟩ := so
          simp only
          generalize hsp : splitOption optname0 islong = sp
          obtain ⟨optname, split', argument⟩ := sp
          simp only
          have h : SameDecl (if islong = true then parseLong E help s1 optname argument else parseShort E help s1 optname argument).1.P s1.P := by
            split
            · exact parseLong_decl ..
            · exact parseShort_decl ..
          generalize (if islong = true then parseLong E help s1 optname argument else parseShort E help s1 optname argument) = res at h
          obtain ⟨s2, err⟩ := res
          simp only at h ⊢
          rw [← hp]
          cases err with
          | none => exact (ih s2).trans h
          | some e =>
            simp only
            split
            · exact h
            · split
              · exact ((ih _).trans (addArgs_decl E s2 [arg])).trans h
              · split
                · exact h
                · exact (ih _).trans h
end GoFlags
