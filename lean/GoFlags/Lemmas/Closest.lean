/-
  Correctness of the Go dynamic programme (`levRunes`) against the textbook distance.
-/
import GoFlags.Closest
import GoFlags.Lemmas.EditDistance

namespace GoFlags

/-- distance between *prefixes* `p`, `q` (what `dists[i][j]` means): compare last characters first -/
def D (p q : List Nat) : Nat := ed p.reverse q.reverse

@[simp] theorem D_nil_left (q : List Nat) : D [] q = q.length := by simp [D]
@[simp] theorem D_nil_right (p : List Nat) : D p [] = p.length := by simp [D]

theorem D_snoc_snoc (p q : List Nat) (a b : Nat) :
    D (p ++ [a]) (q ++ [b]) = levCell a b (D p q) (D p (q ++ [b])) (D (p ++ [a]) q) := by
  unfold D levCell
  simp only [List.reverse_append, List.reverse_cons, List.reverse_nil, List.nil_append,
    List.cons_append]
  by_cases h : a = b
  · subst h; simp [ed_cons_same]
  · rw [ed_cons_diff _ _ _ _ h]; simp only [h, if_false]
    split <;> split <;> omega

/-- the row of prefix `p` from column `|q|` on: `D p q, D p (q++[c₀]), …` -/
def rowFrom (p : List Nat) : List Nat → List Nat → List Nat
  | q, [] => [D p q]
  | q, c :: t => D p q :: rowFrom p (q ++ [c]) t

def rowTail (p : List Nat) : List Nat → List Nat → List Nat
  | _, [] => []
  | q, c :: t => D p (q ++ [c]) :: rowTail p (q ++ [c]) t

theorem rowFrom_eq (p q t : List Nat) : rowFrom p q t = D p q :: rowTail p q t := by
  induction t generalizing q with
  | nil => simp [rowFrom, rowTail]
  | cons c t ih => simp [rowFrom, rowTail, ih]

theorem levRow_spec (p : List Nat) (sc : Nat) (q t : List Nat) :
    levRow sc t (rowFrom p q t) (D (p ++ [sc]) q) = rowTail (p ++ [sc]) q t := by
  induction t generalizing q with
  | nil => simp [rowFrom, rowTail, levRow]
  | cons c t ih =>
    rw [rowFrom, rowFrom_eq p (q ++ [c]) t]
    simp only [levRow, rowTail]
    rw [← D_snoc_snoc, ← rowFrom_eq, ih]

theorem levRows_spec (p s t : List Nat) :
    levRows s t (rowFrom p [] t) p.length = rowFrom (p ++ s) [] t := by
  induction s generalizing p with
  | nil => simp [levRows]
  | cons sc s ih =>
    simp only [levRows]
    have h : (p.length + 1) :: levRow sc t (rowFrom p [] t) (p.length + 1) = rowFrom (p ++ [sc]) [] t := by
      have := levRow_spec p sc [] t
      simp only [D_nil_right, List.length_append, List.length_cons, List.length_nil,
        Nat.zero_add] at this
      rw [this, rowFrom_eq (p ++ [sc])]; simp
    rw [h]
    have := ih (p ++ [sc])
    simpa using this

theorem rowFrom_nil (q t : List Nat) :
    rowFrom [] q t = List.range' q.length (t.length + 1) := by
  induction t generalizing q with
  | nil => simp [rowFrom, List.range']
  | cons c t ih =>
    simp only [rowFrom, D_nil_left, List.length_cons]
    rw [ih]; simp [List.range'_succ]

theorem rowFrom_getLast (p q t : List Nat) : (rowFrom p q t).getLastD 0 = D p (q ++ t) := by
  induction t generalizing q with
  | nil => simp [rowFrom]
  | cons c t ih =>
    rw [rowFrom]
    have := ih (q ++ [c])
    rw [List.getLastD_cons]
    cases hr : rowFrom p (q ++ [c]) t with
    | nil => cases t <;> simp [rowFrom] at hr
    | cons x xs =>
      rw [hr] at this
      simp only [List.getLastD_cons] at this ⊢
      simpa using this

/-- **The Go dynamic programme computes the textbook Levenshtein distance.** -/
theorem levRunes_eq_ed (s t : List Nat) : levRunes s t = ed s t := by
  unfold levRunes
  by_cases hs : s = []
  · simp [hs]
  · by_cases ht : t = []
    · simp [hs, ht]
    · simp only [hs, ht, if_false]
      have h0 : List.range (t.length + 1) = rowFrom [] [] t := by
        rw [rowFrom_nil]; simp [List.range_eq_range']
      rw [h0]
      have := levRows_spec [] s t
      simp only [List.length_nil, List.nil_append] at this
      rw [this, rowFrom_getLast]
      simp [D, ed_reverse]

end GoFlags
