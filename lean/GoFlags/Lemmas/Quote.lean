import GoFlags.Lemmas.Utf8
import GoFlags.Strconv
set_option maxRecDepth 8192
/-
  strconv: `Unquote (Quote s) = s` for all byte strings — with the UTF-8 inverse law
  (decoding a non-error rune and re-encoding it gives the bytes back) and the hex round trip.
-/
namespace GoFlags
open Bytes

/-- decoding is the inverse of encoding on everything but the error answer -/
theorem decodeRune_valid (s : Bytes) (h : ¬((decodeRune s).2 = 1 ∧ (decodeRune s).1 = runeError)) (hs : s ≠ []) :
    validRune (decodeRune s).1 = true ∧ s = encodeRune (decodeRune s).1 ++ s.drop (decodeRune s).2 := by
  cases s with
  | nil => exact absurd rfl hs
  | cons b0 rest =>
    unfold decodeRune at h ⊢
    by_cases h1 : b0 < 0x80
    · simp only [h1, if_true] at h ⊢
      refine ⟨by unfold validRune; simp; omega, ?_⟩
      simp [encodeRune, h1]
    · simp only [h1, if_false] at h ⊢
      by_cases h2 : b0 < 0xC2
      · simp [h2, runeError] at h
      · simp only [h2, if_false] at h ⊢
        by_cases h3 : b0 < 0xE0
        · simp only [h3, if_true] at h ⊢
          cases rest with
          | nil => simp [runeError] at h
          | cons b1 r1 =>
            simp only at h ⊢
            by_cases c1 : isCont b1 = true
            · simp only [c1, if_true] at h ⊢
              simp only [isCont, Bool.and_eq_true, decide_eq_true_eq] at c1
              refine ⟨by unfold validRune; simp; omega, ?_⟩
              unfold encodeRune
              have e1 : ¬((b0 - 0xC0) * 64 + (b1 - 0x80) < 0x80) := by omega
              have e2 : (b0 - 0xC0) * 64 + (b1 - 0x80) < 0x800 := by omega
              simp only [e1, e2, if_false, if_true]
              simp only [List.cons_append, List.nil_append, List.drop_succ_cons, List.drop_zero]
              congr 1
              · omega
              · congr 1; omega
            · simp [c1, runeError] at h
        · simp only [h3, if_false] at h ⊢
          by_cases h4 : b0 < 0xF0
          · simp only [h4, if_true] at h ⊢
            match rest, h with
            | [], h => simp [runeError] at h
            | [_], h => simp [runeError] at h
            | b1 :: b2 :: r2, h =>
              simp only at h ⊢
              by_cases c : (decide (lo3 b0 ≤ b1) && decide (b1 ≤ hi3 b0) && isCont b2) = true
              · simp only [c, if_true] at h ⊢
                simp only [isCont, Bool.and_eq_true, decide_eq_true_eq] at c
                obtain ⟨⟨c1, c2⟩, c3, c4⟩ := c
                have hl : b0 = 0xE0 → 0xA0 ≤ b1 := by intro e; simpa [lo3, e] using c1
                have hl' : 0x80 ≤ b1 := by unfold lo3 at c1; split at c1 <;> omega
                have hh : b0 = 0xED → b1 ≤ 0x9F := by intro e; simpa [hi3, e] using c2
                have hh' : b1 ≤ 0xBF := by unfold hi3 at c2; split at c2 <;> omega
                have hv : validRune ((b0 - 0xE0) * 4096 + (b1 - 0x80) * 64 + (b2 - 0x80)) = true := by
                  unfold validRune; simp
                  by_cases e : b0 = 0xED
                  · have := hh e; omega
                  · omega
                refine ⟨hv, ?_⟩
                unfold encodeRune
                have e1 : ¬((b0 - 0xE0) * 4096 + (b1 - 0x80) * 64 + (b2 - 0x80) < 0x80) := by
                  by_cases e : b0 = 0xE0
                  · have := hl e; omega
                  · omega
                have e2 : ¬((b0 - 0xE0) * 4096 + (b1 - 0x80) * 64 + (b2 - 0x80) < 0x800) := by
                  by_cases e : b0 = 0xE0
                  · have := hl e; omega
                  · omega
                have e3 : (b0 - 0xE0) * 4096 + (b1 - 0x80) * 64 + (b2 - 0x80) < 0x10000 := by omega
                simp only [e1, e2, e3, hv, Bool.not_true, Bool.false_eq_true, if_false, if_true]
                simp only [List.cons_append, List.nil_append, List.drop_succ_cons, List.drop_zero]
                congr 1
                · omega
                · congr 1
                  · omega
                  · congr 1; omega
              · simp [c, runeError] at h
          · simp only [h4, if_false] at h ⊢
            by_cases h5 : b0 < 0xF5
            · simp only [h5, if_true] at h ⊢
              match rest, h with
              | [], h => simp [runeError] at h
              | [_], h => simp [runeError] at h
              | [_, _], h => simp [runeError] at h
              | b1 :: b2 :: b3 :: r3, h =>
                simp only at h ⊢
                by_cases c : (decide (lo4 b0 ≤ b1) && decide (b1 ≤ hi4 b0) && isCont b2 && isCont b3) = true
                · simp only [c, if_true] at h ⊢
                  simp only [isCont, Bool.and_eq_true, decide_eq_true_eq] at c
                  obtain ⟨⟨⟨c1, c2⟩, c3, c4⟩, c5, c6⟩ := c
                  have hl : b0 = 0xF0 → 0x90 ≤ b1 := by intro e; simpa [lo4, e] using c1
                  have hl' : 0x80 ≤ b1 := by unfold lo4 at c1; split at c1 <;> omega
                  have hh : b0 = 0xF4 → b1 ≤ 0x8F := by intro e; simpa [hi4, e] using c2
                  have hh' : b1 ≤ 0xBF := by unfold hi4 at c2; split at c2 <;> omega
                  have hv : validRune ((b0 - 0xF0) * 262144 + (b1 - 0x80) * 4096 + (b2 - 0x80) * 64 + (b3 - 0x80)) = true := by
                    unfold validRune; simp
                    right
                    by_cases e : b0 = 0xF4
                    · have := hh e; omega
                    · by_cases e' : b0 = 0xF0
                      · have := hl e'; omega
                      · omega
                  refine ⟨hv, ?_⟩
                  unfold encodeRune
                  have e3 : ¬((b0 - 0xF0) * 262144 + (b1 - 0x80) * 4096 + (b2 - 0x80) * 64 + (b3 - 0x80) < 0x10000) := by
                    by_cases e : b0 = 0xF0
                    · have := hl e; omega
                    · omega
                  have e1 : ¬((b0 - 0xF0) * 262144 + (b1 - 0x80) * 4096 + (b2 - 0x80) * 64 + (b3 - 0x80) < 0x80) := by omega
                  have e2 : ¬((b0 - 0xF0) * 262144 + (b1 - 0x80) * 4096 + (b2 - 0x80) * 64 + (b3 - 0x80) < 0x800) := by omega
                  simp only [e1, e2, e3, hv, Bool.not_true, Bool.false_eq_true, if_false]
                  simp only [List.cons_append, List.nil_append, List.drop_succ_cons, List.drop_zero]
                  congr 1
                  · omega
                  · congr 1
                    · omega
                    · congr 1
                      · omega
                      · congr 1; omega
                · simp [c, runeError] at h
            · simp [h5, runeError] at h
end GoFlags

namespace GoFlags
open Bytes

theorem unhex_hexDigit (d : Nat) (h : d < 16) : unhex (hexDigit d) = some d := by
  unfold hexDigit unhex
  by_cases h1 : d < 10
  · have a : (decide (0x30 ≤ 0x30 + d) && decide (0x30 + d ≤ 0x39)) = true := by simp; omega
    simp only [h1, if_true, a]; congr 1; omega
  · have a : (decide (0x30 ≤ 0x61 + (d - 10)) && decide (0x61 + (d - 10) ≤ 0x39)) = false := by simp; omega
    have b : (decide (0x61 ≤ 0x61 + (d - 10)) && decide (0x61 + (d - 10) ≤ 0x66)) = true := by simp; omega
    simp only [h1, if_false, a, b, Bool.false_eq_true, if_true]; congr 1; omega

theorem unhexN_hexN_more (n m w : Nat) (tl : Bytes) (acc : Nat) :
    unhexN (n + m) (hexN n w ++ tl) acc = unhexN m tl (acc * 16 ^ n + w % 16 ^ n) := by
  induction n generalizing w tl m acc with
  | zero => simp [hexN, Nat.mod_one]
  | succ n ih =>
    have e : n + 1 + m = n + (m + 1) := by omega
    rw [e]
    simp only [hexN, List.append_assoc, List.cons_append, List.nil_append]
    rw [ih]
    simp only [unhexN, unhex_hexDigit (w % 16) (Nat.mod_lt _ (by omega))]
    congr 1
    rw [Nat.pow_succ, Nat.mul_comm (16 ^ n) 16, Nat.mod_mul]
    generalize 16 ^ n = p
    generalize w / 16 % p = q
    rw [Nat.add_mul, Nat.mul_assoc, Nat.mul_comm p 16, Nat.mul_comm q 16]
    omega

theorem unhexN_hexN (n v : Nat) (rest : Bytes) (acc : Nat) :
    unhexN n (hexN n v ++ rest) acc = some (acc * 16 ^ n + v % 16 ^ n, rest) := by
  have := unhexN_hexN_more n 0 v rest acc
  simpa [unhexN] using this
end GoFlags

namespace GoFlags
open Bytes

theorem uq_simple (f : Nat) (r : Bytes) :
    unquoteBody (f + 1) (0x5C :: 0x61 :: r) = (unquoteBody f r).map (7 :: ·) ∧
    unquoteBody (f + 1) (0x5C :: 0x62 :: r) = (unquoteBody f r).map (8 :: ·) ∧
    unquoteBody (f + 1) (0x5C :: 0x66 :: r) = (unquoteBody f r).map (12 :: ·) ∧
    unquoteBody (f + 1) (0x5C :: 0x6E :: r) = (unquoteBody f r).map (10 :: ·) ∧
    unquoteBody (f + 1) (0x5C :: 0x72 :: r) = (unquoteBody f r).map (13 :: ·) ∧
    unquoteBody (f + 1) (0x5C :: 0x74 :: r) = (unquoteBody f r).map (9 :: ·) ∧
    unquoteBody (f + 1) (0x5C :: 0x76 :: r) = (unquoteBody f r).map (11 :: ·) ∧
    unquoteBody (f + 1) (0x5C :: 0x5C :: r) = (unquoteBody f r).map (0x5C :: ·) ∧
    unquoteBody (f + 1) (0x5C :: 0x22 :: r) = (unquoteBody f r).map (0x22 :: ·) := by
  simp [unquoteBody]

theorem uq_hex2 (f v : Nat) (X : Bytes) :
    unquoteBody (f + 1) (0x5C :: 0x78 :: (hexN 2 v ++ X)) = (unquoteBody f X).map (v % 256 :: ·) := by
  simp [unquoteBody, unhexN_hexN]

theorem uq_u4 (f v : Nat) (X : Bytes) (hv : validRune v = true) (h : v < 0x10000) :
    unquoteBody (f + 1) (0x5C :: 0x75 :: (hexN 4 v ++ X)) = (unquoteBody f X).map (encodeRune v ++ ·) := by
  have : v % 16 ^ 4 = v := Nat.mod_eq_of_lt (by omega)
  simp [unquoteBody, unhexN_hexN, this, hv]

theorem uq_u8 (f v : Nat) (X : Bytes) (hv : validRune v = true) :
    unquoteBody (f + 1) (0x5C :: 0x55 :: (hexN 8 v ++ X)) = (unquoteBody f X).map (encodeRune v ++ ·) := by
  have hlt : v < 16 ^ 8 := by
    unfold validRune at hv; simp at hv; omega
  have : v % 16 ^ 8 = v := Nat.mod_eq_of_lt hlt
  simp [unquoteBody, unhexN_hexN, this, hv]

theorem uq_plain (f b : Nat) (X : Bytes) (h : b < 0x80) (h1 : b ≠ 0x22) (h2 : b ≠ 0x0A) (h3 : b ≠ 0x5C) :
    unquoteBody (f + 1) (b :: X) = (unquoteBody f X).map (b :: ·) := by
  conv => lhs; unfold unquoteBody
  split
  · next e => simp at e
  · next e => simp at e; exact absurd e.1 h1
  · next e => simp at e; exact absurd e.1 h2
  · next e => simp at e; exact absurd e.1 h3
  · next b' r' n1 n2 n3 e =>
    simp at e; obtain ⟨e1, e2⟩ := e; subst e1; subst e2
    simp [h]

theorem uq_multi (f r : Nat) (X : Bytes) (h : 0x80 ≤ r) (hv : validRune r = true) :
    unquoteBody (f + 1) (encodeRune r ++ X) = (unquoteBody f X).map (encodeRune r ++ ·) := by
  have hd := decodeRune_encodeRune r hv X
  have hne : ∀ c, c < 0x80 → c ∉ encodeRune r := fun c hc => encodeRune_no_ascii r c hc (by omega)
  cases he : encodeRune r with
  | nil => have := encodeRune_length_pos r; simp [he] at this
  | cons b0 tl =>
    rw [he] at hd hne
    have hb0 : ¬ b0 < 0x80 := by
      intro hlt; exact hne b0 hlt (by simp)
    simp only [List.cons_append] at hd ⊢
    conv => lhs; unfold unquoteBody
    split
    · next e => simp at e
    · next e => simp at e; omega
    · next e => simp at e; omega
    · next e => simp at e; omega
    · next b' r' n1 n2 n3 e =>
      simp at e; obtain ⟨e1, e2⟩ := e; subst e1; subst e2
      simp only [hb0, if_false, hd]
      simp [he]

theorem unquoteBody_quoteBody (E : Env) (s : Bytes) (hb : ∀ b ∈ s, b < 256) :
    ∀ fuel, (quoteBody E s).length + 1 < fuel → unquoteBody fuel (quoteBody E s ++ [0x22]) = some s := by
  fun_induction quoteBody E s with
  | case1 => 
    intro fuel hf
    match fuel, hf with
    | f + 1, _ => simp [unquoteBody]
  | case2 b t d hd ih =>
    intro fuel hf
    have hbt : ∀ x ∈ t, x < 256 := fun x hx => hb x (by simp [hx])
    have hb0 : b < 256 := hb b (by simp)
    match fuel, hf with
    | f + 1, hf =>
      have e : [92, 120] ++ hexN 2 b ++ quoteBody E t ++ [34] = 0x5C :: 0x78 :: (hexN 2 b ++ (quoteBody E t ++ [0x22])) := by simp
      rw [e, uq_hex2, ih hbt f (by simp at hf; omega)]
      simp [Nat.mod_eq_of_lt hb0]
  | case3 b t d hd ih =>
    intro fuel hf
    have hdv := decodeRune_valid (b :: t) (by simpa using hd) (by simp)
    obtain ⟨hv, hs⟩ := hdv
    have hbt : ∀ x ∈ List.drop d.snd (b :: t), x < 256 := fun x hx => hb x (List.mem_of_mem_drop hx)
    generalize hrest : List.drop d.snd (b :: t) = rest at *
    have hr : d.fst = (decodeRune (b :: t)).1 := rfl
    generalize d.fst = r at *
    rw [← hr] at hv hs
    rw [hs]
    clear hs hr hd
    match fuel, hf with
    | f + 1, hf =>
      have IH : ∀ f', (quoteBody E rest).length + 1 < f' → unquoteBody f' (quoteBody E rest ++ [0x22]) = some rest :=
        fun f' h => ih hbt f' h
      have S := uq_simple f (quoteBody E rest ++ [0x22])
      obtain ⟨s7, s8, s12, s10, s13, s9, s11, s5c, s22⟩ := S
      have enc1 : ∀ x, x < 0x80 → encodeRune x = [x] := fun x hx => by simp [encodeRune, hx]
      unfold escapeRune at hf ⊢
      by_cases c1 : (r = 0x22 || r = 0x5C) = true
      · simp only [c1, if_true] at hf ⊢
        simp only [Bool.or_eq_true, decide_eq_true_eq] at c1
        rcases c1 with c1 | c1 <;> subst c1
        · simp only [List.cons_append, List.nil_append ] at hf ⊢
          rw [s22, IH f (by simp at hf; omega)]; rfl
        · simp only [List.cons_append, List.nil_append ] at hf ⊢
          rw [s5c, IH f (by simp at hf; omega)]; rfl
      · simp only [c1, Bool.false_eq_true, if_false] at hf ⊢
        simp only [Bool.or_eq_true, decide_eq_true_eq, not_or] at c1
        by_cases c2 : isPrintRune E r = true
        · simp only [c2, if_true] at hf ⊢
          by_cases hr : r < 0x80
          · have hp : 0x20 ≤ r := by
              unfold isPrintRune at c2; simp [hr] at c2; omega
            rw [enc1 r hr] at hf ⊢
            simp only [List.cons_append, List.nil_append ] at hf ⊢
            rw [uq_plain f r _ hr c1.1 (by omega) c1.2, IH f (by simp at hf; omega)]; rfl
          · rw [List.append_assoc, uq_multi f r _ (by omega) hv, IH f (by
              have := encodeRune_length_pos r
              simp at hf; omega)]; rfl
        · simp only [c2, Bool.false_eq_true, if_false] at hf ⊢
          have simple : ∀ (c v : Nat), v < 0x80 →
              unquoteBody (f + 1) (0x5C :: c :: (quoteBody E rest ++ [0x22])) = (unquoteBody f (quoteBody E rest ++ [0x22])).map (v :: ·) →
              (([0x5C, c] ++ quoteBody E rest).length + 1 < f + 1) →
              unquoteBody (f + 1) ([0x5C, c] ++ quoteBody E rest ++ [34]) = some (encodeRune v ++ rest) := by
            intro c v hv' hs hl
            simp only [List.cons_append, List.nil_append] at hl ⊢
            rw [hs, IH f (by simp at hl; omega), enc1 v hv']; rfl
          by_cases k7 : r = 7
          · subst k7; simp only [if_true] at hf ⊢; exact simple _ 7 (by omega) s7 hf
          simp only [k7, if_false] at hf ⊢
          by_cases k8 : r = 8
          · subst k8; simp only [if_true] at hf ⊢; exact simple _ 8 (by omega) s8 hf
          simp only [k8, if_false] at hf ⊢
          by_cases k12 : r = 12
          · subst k12; simp only [if_true] at hf ⊢; exact simple _ 12 (by omega) s12 hf
          simp only [k12, if_false] at hf ⊢
          by_cases k10 : r = 10
          · subst k10; simp only [if_true] at hf ⊢; exact simple _ 10 (by omega) s10 hf
          simp only [k10, if_false] at hf ⊢
          by_cases k13 : r = 13
          · subst k13; simp only [if_true] at hf ⊢; exact simple _ 13 (by omega) s13 hf
          simp only [k13, if_false] at hf ⊢
          by_cases k9 : r = 9
          · subst k9; simp only [if_true] at hf ⊢; exact simple _ 9 (by omega) s9 hf
          simp only [k9, if_false] at hf ⊢
          by_cases k11 : r = 11
          · subst k11; simp only [if_true] at hf ⊢; exact simple _ 11 (by omega) s11 hf
          simp only [k11, if_false] at hf ⊢
          by_cases kx : (decide (r < 0x20) || decide (r = 0x7F)) = true
          · simp only [kx, if_true] at hf ⊢
            have hr : r < 0x80 := by simp at kx; omega
            have e : [92, 120] ++ hexN 2 r ++ quoteBody E rest ++ [34] = 0x5C :: 0x78 :: (hexN 2 r ++ (quoteBody E rest ++ [0x22])) := by simp
            rw [e, uq_hex2, IH f (by simp at hf; omega), enc1 r hr]
            simp [Nat.mod_eq_of_lt (show r < 256 by omega)]
          · simp only [kx, Bool.false_eq_true, if_false] at hf ⊢
            by_cases ku : r < 0x10000
            · simp only [ku, if_true] at hf ⊢
              have e : [92, 117] ++ hexN 4 r ++ quoteBody E rest ++ [34] = 0x5C :: 0x75 :: (hexN 4 r ++ (quoteBody E rest ++ [0x22])) := by simp
              rw [e, uq_u4 f r _ hv ku, IH f (by simp at hf; omega)]; rfl
            · simp only [ku, if_false] at hf ⊢
              have e : [92, 85] ++ hexN 8 r ++ quoteBody E rest ++ [34] = 0x5C :: 0x55 :: (hexN 8 r ++ (quoteBody E rest ++ [0x22])) := by simp
              rw [e, uq_u8 f r _ hv, IH f (by simp at hf; omega)]; rfl

/-- **`strconv.Unquote(strconv.Quote(s)) = s`** for every byte string (valid UTF-8 or not) and
    every answer of the `IsPrint` oracle. -/
theorem unquote_quote (E : Env) (s : Bytes) (hb : ∀ b ∈ s, b < 256) : unquote (quote E s) = some s := by
  unfold quote unquote
  exact unquoteBody_quoteBody E s hb _ (by simp)

theorem unquoteIfPossible_quote (E : Env) (s : Bytes) (hb : ∀ b ∈ s, b < 256) :
    unquoteIfPossible (quote E s) = some s := by
  have := unquote_quote E s hb
  unfold quote at this ⊢
  unfold unquoteIfPossible
  exact this
end GoFlags
