/-
  The completion walk against the parser's argument loop: the agreement relation between the two
  states, what one accepted option occurrence / one plain word / one passed-through word does to
  each, and two facts about the loop (errors of an option occurrence are never "unknown flag"; an
  error is never forgotten).  The simulation theorem built on this is in Props/C18.lean.
-/
import GoFlags.Lemmas.Occurrences
import GoFlags.Completion
namespace GoFlags
open Bytes

/-- the parser's state and the completion walk's private state describe the same situation -/
structure Agree (ps : PS) (cs : CS) : Prop where
  decl : SameDecl ps.P cs.P
  cmd : ps.cmd = cs.cmd
  pos : ps.positional = cs.positional
  rest : cs.restSeen = true ↔ ps.retargs ≠ []

/-- the frame of the parse state after an accepted occurrence -/
structure Accepts (s s' : PS) (takes : Bool) : Prop where
  avail : takes = true → s.args ≠ []
  args : s'.args = (if takes then s.args.tail else s.args)
  cmd : s'.cmd = s.cmd
  pos : s'.positional = s.positional
  ret : s'.retargs = s.retargs
  err : s'.err = s.err
  decl : SameDecl s'.P s.P

/-- `parseOption` (as called for a long option), when it accepts the occurrence, takes the next
    word exactly when the option takes an argument, none is attached, the option's argument is not
    optional — and then there is a next word -/
theorem parseOption_accept (E : Env) (help : HelpFn) (s : PS) (r : ORef) (argument : Option Bytes)
    (h : (parseOption E help s r (!(s.P.opt r).optionalArg) argument).2 = none) :
    Accepts s (parseOption E help s r (!(s.P.opt r).optionalArg) argument).1
      ((s.P.opt r).ty.canArgument && argument.isNone && !(s.P.opt r).optionalArg) := by
  have hd := parseOption_decl E help s r (!(s.P.opt r).optionalArg) argument
  by_cases hk : argument.isSome = true ∨ (s.P.opt r).ty.canArgument = false
  · have k := parseOption_keeps E help s r (!(s.P.opt r).optionalArg) argument hk
    have ht : ((s.P.opt r).ty.canArgument && argument.isNone && !(s.P.opt r).optionalArg) = false := by
      rcases hk with hk | hk
      · obtain ⟨V, rfl⟩ := Option.isSome_iff_exists.mp hk; simp
      · simp [hk]
    rw [ht]
    exact ⟨(by intro h; cases h), k.args, k.cmd, k.pos, k.ret, k.err, k.decl⟩
  · simp only [not_or, Bool.not_eq_true, Option.isSome_eq_false_iff, Option.isNone_iff_eq_none] at hk
    obtain ⟨hnone, hca⟩ := hk
    have hca' : (s.P.opt r).ty.canArgument = true := by simpa using hca
    subst hnone
    cases hopt : (s.P.opt r).optionalArg with
    | true =>
      have ht : ((s.P.opt r).ty.canArgument && (none : Option Bytes).isNone && !true) = false := by simp
      rw [ht]
      rw [hopt] at hd
      unfold parseOption at hd ⊢
      simp only [hca', hopt, Bool.not_true, Bool.false_eq_true, if_false, Option.isSome_none, Bool.false_and, Bool.or_self, if_true] at hd ⊢
      exact ⟨(by intro h; cases h), rfl, rfl, rfl, rfl, rfl, hd⟩
    | false =>
      have ht : ((s.P.opt r).ty.canArgument && (none : Option Bytes).isNone && !false) = true := by simp [hca']
      rw [ht]
      rw [hopt] at h hd
      unfold parseOption at h hd ⊢
      simp only [hca', hopt, Bool.not_true, Bool.not_false, Bool.false_eq_true, if_false, Option.isSome_none, Bool.false_or, Bool.true_and] at h hd ⊢
      cases hargs : s.args with
      | nil => simp [PS.eof, hargs] at h
      | cons a rest =>
        have heof : s.eof = false := by simp [PS.eof, hargs]
        simp only [heof, Bool.not_false, if_true, takeArgument, PS.pop, hargs] at h hd ⊢
        cases hv : isValidValue s.P r a with
        | some m => simp [hv] at h
        | none =>
          simp only [hv] at h hd ⊢
          cases hdd : (s.P.opts.passDoubleDash && decide (a = B "--")) with
          | true => simp [hdd] at h
          | false =>
            simp only [hdd, Bool.false_eq_true, if_false] at h hd ⊢
            generalize (if tagGet (s.P.opt r).tag (B "unquote") ≠ B "false" then unquoteIfPossible a else some a) = unq at h hd ⊢
            cases unq with
            | none => simp at h
            | some a' =>
              simp only [finishSet] at hd ⊢
              exact ⟨(by intro _; simp [hargs]), (by simp [hargs]), rfl, rfl, rfl, rfl, hd⟩

theorem SameDecl.argAt_ty {P Q : Parser} (h : SameDecl P Q) (a : Nat × Nat) : (P.argAt a).ty = (Q.argAt a).ty := by
  have hc := h.cmdDecl a.1
  unfold Parser.argAt
  have : ((P.cmd a.1).decl.args.getD a.2 {}).ty = ((Q.cmd a.1).decl.args.getD a.2 {}).ty := by rw [hc]
  unfold Cmd.decl at this
  simp only at this
  rw [← ArgD.decl_default, getD_map_default, getD_map_default] at this
  exact this

theorem SameDecl.args_length {P Q : Parser} (h : SameDecl P Q) (i : Nat) : (P.cmd i).args.length = (Q.cmd i).args.length := by
  have hc := h.cmdDecl i
  have : (P.cmd i).decl.args.length = (Q.cmd i).decl.args.length := by rw [hc]
  simpa [Cmd.decl] using this

/-- one word handed to `addArgs` without a conversion error: the next positional is consumed
    (unless it is the rest slice), or the word joins the remaining arguments -/
theorem addArgs_one (E : Env) (s : PS) (w : Bytes) (herr : (s.addArgs E [w]).1.err = none) (h0 : s.err = none) :
    let s' := (s.addArgs E [w]).1
    (s.addArgs E [w]).2 = none ∧ s'.args = s.args ∧ s'.cmd = s.cmd ∧ SameDecl s'.P s.P ∧ s'.err = none ∧
    (match s.positional with
     | [] => s'.positional = [] ∧ s'.retargs = s.retargs ++ [w]
     | p :: pt => s'.retargs = s.retargs ∧ s'.positional = (if (s.P.argAt p).isRemaining then p :: pt else pt)) := by
  have hd := addArgs_decl E s [w]
  unfold PS.addArgs at herr hd ⊢
  cases hp : s.positional with
  | nil =>
    simp only [hp] at herr hd ⊢
    refine ⟨?_, ?_, ?_, hd, ?_, ?_, ?_⟩ <;> first | rfl | trivial | exact h0
  | cons p pt =>
    simp only [hp] at herr hd ⊢
    cases hc : convert E (s.P.argAt p).tag w (s.P.argAt p).ty (s.P.argAt p).val with
    | error m => simp [hc] at herr
    | ok v =>
      simp only [hc] at herr hd ⊢
      simp only [PS.addArgs] at herr hd ⊢
      refine ⟨?_, ?_, ?_, hd, ?_, ?_, ?_⟩ <;> first | rfl | trivial | exact h0

/-- the completion walk's step on a plain word -/
def CS.plainWord (cs : CS) (arg : Bytes) : CS :=
  match cs.P.lookupCmd cs.cmd arg with
  | some sub => if cs.positional.isEmpty && !cs.restSeen then cs.fill sub else cs.passThrough
  | none => cs.passThrough

theorem Parser.lookupCmd_no_subs (P : Parser) (ci : Nat) (n : Bytes) (h : P.subs ci = []) : P.lookupCmd ci n = none := by
  unfold Parser.lookupCmd; rw [h]; rfl

/-- a word the parser passes through (to the next positional or the remaining arguments) and the
    walk's `passThrough` keep the two states in agreement -/
theorem passThrough_agree (E : Env) (ps : PS) (cs : CS) (w : Bytes) (h : Agree ps cs) (h0 : ps.err = none)
    (he : (ps.addArgs E [w]).1.err = none) :
    Agree (ps.addArgs E [w]).1 cs.passThrough ∧ (ps.addArgs E [w]).1.args = ps.args ∧ cs.passThrough.args = cs.args := by
  obtain ⟨_, ha, hc, hd, _, hm⟩ := addArgs_one E ps w he h0
  unfold CS.passThrough
  cases hp : ps.positional with
  | nil =>
    simp only [hp] at hm
    have hcp : cs.positional = [] := by rw [← h.pos, hp]
    simp only [hcp]
    refine ⟨⟨hd.trans h.decl, hc.trans h.cmd, by rw [hm.1], ?_⟩, ha, by first | rfl | trivial⟩
    simp only [true_iff]
    rw [hm.2]; simp
  | cons p pt =>
    simp only [hp] at hm
    have hcp : cs.positional = p :: pt := by rw [← h.pos, hp]
    simp only [hcp]
    have hrem : (cs.P.argAt p).isRemaining = (ps.P.argAt p).isRemaining := by
      unfold ArgD.isRemaining; rw [h.decl.argAt_ty]
    rw [hrem]
    cases hr : (ps.P.argAt p).isRemaining with
    | true =>
      simp only [if_true]
      simp only [hr, if_true] at hm
      exact ⟨⟨hd.trans h.decl, hc.trans h.cmd, by rw [hm.2, hcp], by rw [hm.1]; exact h.rest⟩, ha, by first | rfl | trivial⟩
    | false =>
      simp only [Bool.false_eq_true, if_false]
      simp only [hr, Bool.false_eq_true, if_false] at hm
      exact ⟨⟨hd.trans h.decl, hc.trans h.cmd, by rw [hm.2], by rw [hm.1]; exact h.rest⟩, ha, by first | rfl | trivial⟩

/-- **A plain word moves both in step**: what `parseNonOption` does to the parser's command
    context, pending positionals and remaining arguments is what the completion walk does to its
    own, whenever the parser does not fail on the word. -/
theorem plainWord_agree (E : Env) (ps : PS) (cs : CS) (h : Agree ps cs) (h0 : ps.err = none)
    (herr : (parseNonOption E ps).1.err = none) :
    Agree (parseNonOption E ps).1 (cs.plainWord ps.arg) ∧ (parseNonOption E ps).1.args = ps.args ∧
    (cs.plainWord ps.arg).args = cs.args := by
  have hlc : ps.P.lookupCmd ps.cmd ps.arg = cs.P.lookupCmd cs.cmd ps.arg := by rw [h.decl.lookupCmd, h.cmd]
  have hsubs : ps.P.subs ps.cmd = cs.P.subs cs.cmd := by rw [h.decl.subs, h.cmd]
  -- the pass-through case, shared by several branches
  have pass : (ps.addArgs E [ps.arg]).1.err = none →
      Agree (ps.addArgs E [ps.arg]).1 cs.passThrough ∧ (ps.addArgs E [ps.arg]).1.args = ps.args ∧ cs.passThrough.args = cs.args := by
    intro he
    obtain ⟨_, ha, hc, hd, _, hm⟩ := addArgs_one E ps ps.arg he h0
    unfold CS.passThrough
    cases hp : ps.positional with
    | nil =>
      simp only [hp] at hm
      have hcp : cs.positional = [] := by rw [← h.pos, hp]
      simp only [hcp]
      refine ⟨⟨hd.trans h.decl, hc.trans h.cmd, by rw [hm.1], ?_⟩, ha, by first | rfl | trivial⟩
      simp only [true_iff]
      rw [hm.2]; simp
    | cons p pt =>
      simp only [hp] at hm
      have hcp : cs.positional = p :: pt := by rw [← h.pos, hp]
      simp only [hcp]
      have hrem : (cs.P.argAt p).isRemaining = (ps.P.argAt p).isRemaining := by
        unfold ArgD.isRemaining; rw [h.decl.argAt_ty]
      rw [hrem]
      cases hr : (ps.P.argAt p).isRemaining with
      | true =>
        simp only [if_true]
        simp only [hr, if_true] at hm
        exact ⟨⟨hd.trans h.decl, hc.trans h.cmd, by rw [hm.2, hcp], by rw [hm.1]; exact h.rest⟩, ha, by first | rfl | trivial⟩
      | false =>
        simp only [Bool.false_eq_true, if_false]
        simp only [hr, Bool.false_eq_true, if_false] at hm
        exact ⟨⟨hd.trans h.decl, hc.trans h.cmd, by rw [hm.2], by rw [hm.1]; exact h.rest⟩, ha, by first | rfl | trivial⟩
  unfold parseNonOption at herr ⊢
  simp only at herr ⊢
  unfold CS.plainWord
  by_cases hpos : ps.positional = []
  · have hcpos : cs.positional = [] := by rw [← h.pos, hpos]
    simp only [hpos, ne_eq, not_true_eq_false, if_false] at herr ⊢
    by_cases hcond : ((ps.P.subs ps.cmd) ≠ [] && ps.retargs = []) = true
    · simp only [hcond, if_true] at herr ⊢
      simp only [Bool.and_eq_true, decide_eq_true_eq] at hcond
      have hrs : cs.restSeen = false := by
        cases hx : cs.restSeen with
        | false => rfl
        | true => exact absurd hcond.2 (h.rest.mp hx)
      rw [← hlc]
      cases hl : ps.P.lookupCmd ps.cmd ps.arg with
      | some sub =>
        simp only [hl] at herr ⊢
        simp only [hcpos, hrs, List.isEmpty_nil, Bool.not_false, Bool.and_self, if_true]
        refine ⟨⟨?_, ?_, ?_, ?_⟩, rfl, rfl⟩
        · exact (Parser.decl_setActive _ _ _).trans h.decl
        · rfl
        · simp only [PS.fill, CS.fill]
          have : ((ps.P.modCmd ps.cmd fun c => { c with active := some sub }).cmd sub).args.length = (cs.P.cmd sub).args.length :=
            ((Parser.decl_setActive ps.P ps.cmd (some sub)).trans h.decl).args_length sub
          rw [this]
        · simp only [PS.fill, CS.fill, hrs, Bool.false_eq_true, false_iff, ne_eq]
          exact fun hne => hne hcond.2
      | none =>
        simp only [hl] at herr ⊢
        split at herr <;> split <;> first | exact pass herr | (simp_all)
    · simp only [hcond, Bool.false_eq_true, if_false] at herr ⊢
      have hpt := pass herr
      -- the walk passes the word through as well: either it is no command, or a remaining argument was seen
      cases hl : cs.P.lookupCmd cs.cmd ps.arg with
      | none => simpa [hl] using hpt
      | some sub =>
        simp only [hl]
        have : (cs.positional.isEmpty && !cs.restSeen) = false := by
          simp only [Bool.and_eq_true, decide_eq_true_eq, not_and] at hcond
          by_cases hs : ps.P.subs ps.cmd = []
          · have := Parser.lookupCmd_no_subs cs.P cs.cmd ps.arg (by rw [← hsubs]; exact hs)
            rw [this] at hl; cases hl
          · have hr : ps.retargs ≠ [] := by
              intro e; exact hcond (by simpa using hs) e
            have := h.rest.mpr hr
            simp [this]
        simp only [this, Bool.false_eq_true, if_false]
        exact hpt
  · have hcpos : cs.positional ≠ [] := by rw [← h.pos]; exact hpos
    simp only [ne_eq, hpos, not_false_eq_true, if_true] at herr ⊢
    have hpt := pass herr
    cases hl : cs.P.lookupCmd cs.cmd ps.arg with
    | none => simpa [hl] using hpt
    | some sub =>
      simp only [hl]
      have : (cs.positional.isEmpty && !cs.restSeen) = false := by
        cases hcp : cs.positional with
        | nil => exact absurd hcp hcpos
        | cons _ _ => rfl
      simp only [this, Bool.false_eq_true, if_false]
      exact hpt

/-! ### errors of an option occurrence are never "unknown flag"; the error field is sticky -/

theorem optCall_not_unknownFlag (E : Env) (help : HelpFn) (P : Parser) (r : ORef) (v : Option Bytes) (log : List Event) (e : GoErr)
    (h : (optCall E help P r v log).2.2 = some e) : e.isUnknownFlag = false := by
  unfold optCall at h
  simp only at h
  have cb : ∀ a, callbackResult help P (P.opt r).cb a = some e → e.isUnknownFlag = false := by
    intro a ha
    unfold callbackResult at ha
    split at ha <;> simp at ha <;> (rw [← ha]; rfl)
  split at h
  · split at h
    · simp at h; rw [← h]; rfl
    · split at h <;> exact cb _ h
  · split at h <;> exact cb _ h

theorem optSet_not_unknownFlag (E : Env) (help : HelpFn) (P : Parser) (r : ORef) (v : Option Bytes) (log : List Event) (e : GoErr)
    (h : (optSet E help P r v log).2.2 = some e) : e.isUnknownFlag = false := by
  unfold optSet at h
  simp only at h
  split at h
  · simp at h; rw [← h]; rfl
  · split at h
    · exact optCall_not_unknownFlag _ _ _ _ _ _ _ h
    · split at h
      · simp at h
      · simp at h; rw [← h]; rfl

theorem wrapMarshal_not_unknownFlag (P : Parser) (r : ORef) (e : GoErr) (h : e.isUnknownFlag = false) :
    (wrapMarshal P r e).isUnknownFlag = false := by
  cases e with
  | flags t m => exact h
  | ini f l m => rfl
  | foreign m => rfl

theorem setOptionalValues_not_unknownFlag (E : Env) (help : HelpFn) (r : ORef) (vs : List Bytes) (P : Parser) (log : List Event) (e : GoErr)
    (h : (setOptionalValues E help r vs P log).2.2 = some e) : e.isUnknownFlag = false := by
  induction vs generalizing P log with
  | nil => simp [setOptionalValues] at h
  | cons v vs ih =>
    unfold setOptionalValues at h
    have h1 := fun e' => optSet_not_unknownFlag E help P r (some v) log e'
    generalize optSet E help P r (some v) log = res at h h1
    obtain ⟨P', log', e'⟩ := res
    cases e' with
    | some e' => simp at h; rw [← h]; exact h1 e' rfl
    | none => exact ih _ _ h

theorem finishSet_not_unknownFlag (s : PS) (r : ORef) (res : Parser × List Event × Option GoErr) (e : GoErr)
    (hres : ∀ e', res.2.2 = some e' → e'.isUnknownFlag = false)
    (h : (finishSet s r res).2 = some e) : e.isUnknownFlag = false := by
  unfold finishSet at h
  simp only [Option.map_eq_some_iff] at h
  obtain ⟨a, ha1, ha2⟩ := h
  rw [← ha2]; exact wrapMarshal_not_unknownFlag _ _ _ (hres a ha1)

theorem parseOption_not_unknownFlag (E : Env) (help : HelpFn) (s : PS) (r : ORef) (canarg : Bool)
    (argument : Option Bytes) (e : GoErr) (h : (parseOption E help s r canarg argument).2 = some e) :
    e.isUnknownFlag = false := by
  unfold parseOption at h
  simp only at h
  split at h
  · split at h
    · simp at h; rw [← h]; rfl
    · exact finishSet_not_unknownFlag _ _ _ _ (fun e' he' => optSet_not_unknownFlag _ _ _ _ _ _ _ he') h
  · split at h
    · have ht : ∀ e', (takeArgument s r argument).2.2 = some e' → e'.isUnknownFlag = false := by
        intro e' he'
        unfold takeArgument at he'
        split at he'
        · simp at he'
        · simp only at he'
          split at he'
          · simp at he'; rw [← he']; rfl
          · split at he'
            · simp at he'; rw [← he']; rfl
            · simp at he'
      generalize takeArgument s r argument = ta at h ht
      obtain ⟨s1, a, e1⟩ := ta
      cases e1 with
      | some e1 => simp at h; rw [← h]; exact ht e1 rfl
      | none =>
        simp only at h
        split at h
        · simp at h; rw [← h]; rfl
        · exact finishSet_not_unknownFlag _ _ _ _ (fun e' he' => optSet_not_unknownFlag _ _ _ _ _ _ _ he') h
    · split at h
      · exact finishSet_not_unknownFlag _ _ _ _ (fun e' he' => setOptionalValues_not_unknownFlag _ _ _ _ _ _ _ he') h
      · simp at h; rw [← h]; rfl

theorem takeArgument_err (s : PS) (r : ORef) (argument : Option Bytes) : (takeArgument s r argument).1.err = s.err := by
  unfold takeArgument
  cases argument with
  | some a => rfl
  | none =>
    simp only
    have hp : s.pop.1.err = s.err := by unfold PS.pop; split <;> rfl
    generalize s.pop = q at hp
    obtain ⟨s', a⟩ := q
    simp only at hp ⊢
    split
    · exact hp
    · split <;> exact hp

theorem parseOption_err (E : Env) (help : HelpFn) (s : PS) (r : ORef) (canarg : Bool) (argument : Option Bytes) :
    (parseOption E help s r canarg argument).1.err = s.err := by
  unfold parseOption
  simp only
  split
  · split <;> rfl
  · split
    · have hP := takeArgument_err s r argument
      generalize takeArgument s r argument = t at hP
      obtain ⟨s', a, e⟩ := t
      simp only at hP
      cases e with
      | some e => exact hP
      | none =>
        simp only
        split
        · exact hP
        · exact hP
    · split <;> rfl

theorem parseLong_err (E : Env) (help : HelpFn) (s : PS) (name : Bytes) (argument : Option Bytes) :
    (parseLong E help s name argument).1.err = s.err := by
  unfold parseLong
  split
  · exact parseOption_err ..
  · rfl

theorem parseShortLoop_err (E : Env) (help : HelpFn) (total fuel : Nat) (s : PS) (opt : Bytes) (i : Nat)
    (argument : Option Bytes) : (parseShortLoop E help total fuel s opt i argument).1.err = s.err := by
  induction fuel generalizing s opt i argument with
  | zero => rfl
  | succ fuel ih =>
    cases opt with
    | nil => rfl
    | cons b rest =>
      unfold parseShortLoop
      simp only
      split
      · next r _ =>
        have h := parseOption_err E help s r (decide (i + runeLen (decodeRune (b :: rest)).1 = total) && !(s.P.opt r).optionalArg) argument
        generalize parseOption E help s r (decide (i + runeLen (decodeRune (b :: rest)).1 = total) && !(s.P.opt r).optionalArg) argument = res at h
        obtain ⟨s', e⟩ := res
        cases e with
        | some e => exact h
        | none => exact (ih s' _ _ none).trans h
      · rfl

theorem parseShort_err (E : Env) (help : HelpFn) (s : PS) (optname : Bytes) (argument : Option Bytes) :
    (parseShort E help s optname argument).1.err = s.err := by
  unfold parseShort
  exact parseShortLoop_err ..

/-- `addArgs` never clears the error field, and leaves it alone when it reports no error -/
theorem addArgs_err_sticky (E : Env) (s : PS) (as : List Bytes) :
    (s.err ≠ none → (s.addArgs E as).1.err ≠ none) ∧ ((s.addArgs E as).2 = none → (s.addArgs E as).1.err = s.err) := by
  fun_induction PS.addArgs E s as with
  | case1 s => exact ⟨id, fun _ => rfl⟩
  | case2 s a as hpos => exact ⟨id, fun _ => rfl⟩
  | case3 s a as p ps hpos ad m hconv P => exact ⟨fun _ => by simp, fun h => by simp at h⟩
  | case4 s a as p ps hpos ad v hconv P ih => exact ih

theorem parseNonOption_err_sticky (E : Env) (s : PS) :
    (s.err ≠ none → (parseNonOption E s).1.err ≠ none) ∧
    ((parseNonOption E s).2 = false → (parseNonOption E s).1.err = s.err) := by
  have ha := addArgs_err_sticky E s [s.arg]
  unfold parseNonOption
  simp only
  split
  · exact ⟨ha.1, fun h => ha.2 (by simpa using h)⟩
  · split
    · split
      · exact ⟨id, fun _ => rfl⟩
      · split
        · exact ⟨ha.1, fun h => by simp at h⟩
        · exact ⟨ha.1, fun h => ha.2 (by simpa using h)⟩
    · exact ⟨ha.1, fun h => ha.2 (by simpa using h)⟩

/-- **An error is never forgotten by the argument loop.** -/
theorem parseLoop_err_sticky (E : Env) (help : HelpFn) (fuel : Nat) (s : PS) (h : s.err ≠ none) :
    (parseLoop E help fuel s).err ≠ none := by
  induction fuel generalizing s with
  | zero => exact h
  | succ fuel ih =>
    unfold parseLoop
    split
    · exact h
    · have hp : s.pop.1.err = s.err := by unfold PS.pop; split <;> rfl
      generalize s.pop = q at hp
      obtain ⟨s1, arg⟩ := q
      simp only at hp ⊢
      have h1 : s1.err ≠ none := by rw [hp]; exact h
      split
      · exact (addArgs_err_sticky E s1 s1.args).1 h1
      · split
        · split
          · have ha := addArgs_err_sticky E s1 [s1.arg]
            generalize s1.addArgs E [s1.arg] = res at ha
            obtain ⟨s2, e⟩ := res
            cases e with
            | some e => exact ha.1 h1
            | none => exact (addArgs_err_sticky E s2 s2.args).1 (ha.1 h1)
          · have hn := parseNonOption_err_sticky E s1
            generalize parseNonOption E s1 = res at hn
            obtain ⟨s2, stop⟩ := res
            cases stop with
            | true => exact hn.1 h1
            | false => exact ih s2 (hn.1 h1)
        · generalize hso : stripOptionPrefix arg = so
          obtain ⟨pfx, optname0, islong⟩ := so
          simp only
          generalize hsp : splitOption optname0 islong = sp
          obtain ⟨optname, split', argument⟩ := sp
          simp only
          have he : (if islong = true then parseLong E help s1 optname argument else parseShort E help s1 optname argument).1.err = s1.err := by
            split
            · exact parseLong_err ..
            · exact parseShort_err ..
          generalize (if islong = true then parseLong E help s1 optname argument else parseShort E help s1 optname argument) = res at he
          obtain ⟨s2, err⟩ := res
          simp only at he ⊢
          have h2 : s2.err ≠ none := by rw [he]; exact h1
          cases err with
          | none => exact ih s2 h2
          | some e =>
            simp only
            split
            · simp
            · split
              · exact ih _ ((addArgs_err_sticky E s2 [arg]).1 h2)
              · split
                · simp
                · exact ih _ h2

theorem SameDecl.handler {P Q : Parser} (h : SameDecl P Q) : P.handler = Q.handler := by
  have : P.decl.handler = Q.decl.handler := by rw [h]
  exact this

/-- a word of the kinds the simulation theorem covers: a plain word or a long option -/
def LongOrPlain (w : Bytes) : Prop := argumentIsOption w = false ∨ (stripOptionPrefix w).2.2 = true

theorem Agree.lookupLong {ps : PS} {cs : CS} (h : Agree ps cs) (n : Bytes) :
    ps.P.lookupLong ps.cmd n = cs.P.lookupLong cs.cmd n := by rw [h.decl.lookupLong, h.cmd]

theorem Agree.optTy {ps : PS} {cs : CS} (h : Agree ps cs) (r : ORef) :
    (ps.P.opt r).ty = (cs.P.opt r).ty ∧ (ps.P.opt r).optionalArg = (cs.P.opt r).optionalArg := by
  have hd := h.decl.opt r
  constructor
  · have : (ps.P.opt r).decl.ty = (cs.P.opt r).decl.ty := by rw [hd]
    exact this
  · have : (ps.P.opt r).decl.optionalArg = (cs.P.opt r).decl.optionalArg := by rw [hd]
    exact this

theorem compWalk_terminator (f : Nat) (cs : CS) (opt : Option ORef) (arg x : Bytes) (xs : List Bytes)
    (h : cs.args = arg :: x :: xs) (hdd : (cs.P.opts.passDoubleDash && arg = B "--") = true) :
    (compWalk (f + 1) cs opt).2.2 = true := by
  unfold compWalk
  simp only [h]
  simp only [Bool.and_eq_true, decide_eq_true_eq] at hdd
  simp [hdd.1, hdd.2]

theorem compWalk_passAfter (f : Nat) (cs : CS) (opt : Option ORef) (arg x : Bytes) (xs : List Bytes)
    (h : cs.args = arg :: x :: xs) (hdd : (cs.P.opts.passDoubleDash && arg = B "--") = false)
    (hno : argumentIsOption arg = false)
    (hpa : (cs.P.opts.passAfterNonOption && (cs.P.lookupCmd cs.cmd arg).isNone) = true) :
    (compWalk (f + 1) cs opt).2.2 = true := by
  unfold compWalk
  simp only [h, hdd, hno, hpa, Bool.false_eq_true, if_false, if_true]

theorem compWalk_plain (f : Nat) (cs : CS) (opt : Option ORef) (arg x : Bytes) (xs : List Bytes)
    (h : cs.args = arg :: x :: xs) (hdd : (cs.P.opts.passDoubleDash && arg = B "--") = false)
    (hno : argumentIsOption arg = false)
    (hpa : (cs.P.opts.passAfterNonOption && (cs.P.lookupCmd cs.cmd arg).isNone) = false) :
    compWalk (f + 1) cs opt = compWalk f (({ cs with args := x :: xs } : CS).plainWord arg) none := by
  conv => lhs; unfold compWalk
  simp only [h, hdd, hno, hpa, Bool.false_eq_true, if_false]
  rfl

/-- the walk's step on a long option, when more than one word follows it -/
theorem compWalk_long (f : Nat) (cs : CS) (opt : Option ORef) (arg x : Bytes) (xs : List Bytes) (pfx name0 name split : Bytes)
    (argument : Option Bytes)
    (h : cs.args = arg :: x :: xs) (hdd : (cs.P.opts.passDoubleDash && arg = B "--") = false)
    (hyes : argumentIsOption arg = true) (hstrip : stripOptionPrefix arg = (pfx, name0, true))
    (hsplit : splitOption name0 true = (name, split, argument)) :
    compWalk (f + 1) cs opt =
      match cs.P.lookupLong cs.cmd name with
      | none =>
        if cs.P.opts.ignoreUnknown then compWalk f ({ cs with args := x :: xs } : CS).passThrough opt
        else if argument.isSome then compWalk f { cs with args := x :: xs } opt
        else if cs.P.opts.passAfterNonOption then (({ cs with args := x :: xs } : CS).skipPositional ((x :: xs).length - 1), none, false)
        else compWalk f { cs with args := x :: xs } opt
      | some r =>
        if (argument.isNone && (cs.P.opt r).ty.canArgument && !(cs.P.opt r).optionalArg) = true then
          (if xs = [] then compWalk f { cs with args := x :: xs } (some r)
           else compWalk f { cs with args := xs } opt)
        else compWalk f { cs with args := x :: xs } opt := by
  conv => lhs; unfold compWalk
  simp only [h, hdd, hyes, Bool.false_eq_true, if_false, if_true, hstrip, hsplit]
  cases hl : cs.P.lookupLong cs.cmd name with
  | none => rfl
  | some r =>
    simp only [Bool.and_true]
    cases xs with
    | nil => simp
    | cons y ys => simp

end GoFlags
