/-
  What the parse phase can write to the event log: callback and unknown-option-handler events
  only — never an execution.
-/
import GoFlags.Lemmas.ParseBasics

namespace GoFlags
open Bytes

/-- events of user code that runs *during* parsing (callbacks, the unknown-option handler) -/
def Event.duringParse : Event → Bool
  | .cb _ _ => true
  | .unknown _ _ _ => true
  | _ => false

/-- the log grew by parse-time events only -/
def LogGrows (l l' : List Event) : Prop := ∃ d, l' = l ++ d ∧ ∀ ev ∈ d, ev.duringParse = true

theorem LogGrows.refl (l : List Event) : LogGrows l l := ⟨[], by simp, by simp⟩

theorem LogGrows.trans {a b c : List Event} (h1 : LogGrows a b) (h2 : LogGrows b c) : LogGrows a c := by
  obtain ⟨d1, e1, p1⟩ := h1
  obtain ⟨d2, e2, p2⟩ := h2
  refine ⟨d1 ++ d2, by rw [e2, e1, List.append_assoc], ?_⟩
  intro ev hev
  rcases List.mem_append.mp hev with h | h
  · exact p1 ev h
  · exact p2 ev h

theorem LogGrows.snoc (l : List Event) (ev : Event) (h : ev.duringParse = true) : LogGrows l (l ++ [ev]) :=
  ⟨[ev], rfl, by simpa using h⟩

theorem optCall_log (E : Env) (help : HelpFn) (P : Parser) (r : ORef) (v : Option Bytes) (log : List Event) :
    LogGrows log (optCall E help P r v log).2.1 := by
  unfold optCall
  simp only
  split
  · split
    · exact LogGrows.refl _
    · split
      · exact LogGrows.refl _
      · exact LogGrows.snoc _ _ rfl
  · split
    · exact LogGrows.refl _
    · exact LogGrows.snoc _ _ rfl

theorem optSet_log (E : Env) (help : HelpFn) (P : Parser) (r : ORef) (v : Option Bytes) (log : List Event) :
    LogGrows log (optSet E help P r v log).2.1 := by
  unfold optSet
  simp only
  cases choiceRejected (P.opt r).markSet v
  · simp only [Bool.false_eq_true, if_false]
    cases (P.opt r).markSet.ty.isFunc
    · simp only [Bool.false_eq_true, if_false]
      cases convert E (P.opt r).markSet.tag (v.getD []) (P.opt r).markSet.ty (P.opt r).markSet.val <;>
        exact LogGrows.refl _
    · simp only [if_true]; exact optCall_log ..
  · exact LogGrows.refl _

theorem setOptionalValues_log (E : Env) (help : HelpFn) (r : ORef) (vs : List Bytes) (P : Parser) (log : List Event) :
    LogGrows log (setOptionalValues E help r vs P log).2.1 := by
  induction vs generalizing P log with
  | nil => exact LogGrows.refl _
  | cons v vs ih =>
    unfold setOptionalValues
    have h := optSet_log E help P r (some v) log
    generalize optSet E help P r (some v) log = res at h
    obtain ⟨P', log', e⟩ := res
    cases e with
    | some e => exact h
    | none => exact h.trans (ih P' log')

theorem optSetDefault_log (E : Env) (help : HelpFn) (P : Parser) (r : ORef) (v : Option Bytes) (log : List Event) :
    LogGrows log (optSetDefault E help P r v log).2.1 := by
  unfold optSetDefault
  split
  · exact LogGrows.refl _
  · have h := optSet_log E help P r v log
    generalize optSet E help P r v log = res at h
    obtain ⟨P', log', e⟩ := res
    cases e <;> exact h

theorem setDefaults_log (E : Env) (help : HelpFn) (r : ORef) (ds : List Bytes) (P : Parser) (log : List Event) :
    LogGrows log (setDefaults E help r ds P log).2.1 := by
  induction ds generalizing P log with
  | nil => exact LogGrows.refl _
  | cons d ds ih =>
    unfold setDefaults
    have h := optSetDefault_log E help P r (some d) log
    generalize optSetDefault E help P r (some d) log = res at h
    obtain ⟨P', log', e⟩ := res
    cases e with
    | some e => exact h
    | none => exact h.trans (ih P' log')

theorem optClearDefault_log (E : Env) (help : HelpFn) (P : Parser) (r : ORef) (log : List Event) :
    LogGrows log (optClearDefault E help P r log).2.1 := by
  unfold optClearDefault
  simp only
  split
  · exact LogGrows.refl _
  · split
    · exact setDefaults_log ..
    · split <;> exact LogGrows.refl _

theorem clearDefaultsAll_log (E : Env) (help : HelpFn) (rs : List ORef) (s : PS) :
    LogGrows s.log (clearDefaultsAll E help rs s).log := by
  induction rs generalizing s with
  | nil => exact LogGrows.refl _
  | cons r rs ih =>
    unfold clearDefaultsAll
    have h := optClearDefault_log E help s.P r s.log
    generalize optClearDefault E help s.P r s.log = res at h
    obtain ⟨P, log, e⟩ := res
    cases e <;> exact h.trans (ih _)

theorem checkRequired_log (s : PS) : (checkRequired s).log = s.log := by
  unfold checkRequired
  simp only
  split
  · split <;> rfl
  · split <;> rfl

theorem finishSet_log (s : PS) (r : ORef) (res : Parser × List Event × Option GoErr)
    (h : LogGrows s.log res.2.1) : LogGrows s.log (finishSet s r res).1.log := h

theorem pop_log (s : PS) : s.pop.1.log = s.log := by
  unfold PS.pop; split <;> rfl

theorem takeArgument_log (s : PS) (r : ORef) (argument : Option Bytes) :
    (takeArgument s r argument).1.log = s.log := by
  unfold takeArgument
  split
  · rfl
  · have := pop_log s
    generalize s.pop = sp at this
    obtain ⟨s1, a⟩ := sp
    simp only
    split
    · exact this
    · split <;> exact this

theorem parseOption_log (E : Env) (help : HelpFn) (s : PS) (r : ORef) (canarg : Bool) (argument : Option Bytes) :
    LogGrows s.log (parseOption E help s r canarg argument).1.log := by
  unfold parseOption
  simp only
  split
  · split
    · exact LogGrows.refl _
    · exact finishSet_log _ _ _ (optSet_log ..)
  · split
    · have h := takeArgument_log s r argument
      generalize takeArgument s r argument = ta at h
      obtain ⟨s1, a, e⟩ := ta
      cases e with
      | some e => simp only at h ⊢; rw [h]; exact LogGrows.refl _
      | none =>
        simp only at h ⊢
        split
        · rw [h]; exact LogGrows.refl _
        · rw [← h]; exact finishSet_log _ _ _ (optSet_log ..)
    · split
      · exact finishSet_log _ _ _ (setOptionalValues_log ..)
      · exact LogGrows.refl _

theorem parseLong_log (E : Env) (help : HelpFn) (s : PS) (name : Bytes) (argument : Option Bytes) :
    LogGrows s.log (parseLong E help s name argument).1.log := by
  unfold parseLong
  split
  · exact parseOption_log ..
  · exact LogGrows.refl _

theorem parseShortLoop_log (E : Env) (help : HelpFn) (total fuel : Nat) (s : PS) (opt : Bytes) (i : Nat)
    (argument : Option Bytes) : LogGrows s.log (parseShortLoop E help total fuel s opt i argument).1.log := by
  fun_induction parseShortLoop E help total fuel s opt i argument with
  | case1 => exact LogGrows.refl _
  | case2 => exact LogGrows.refl _
  | case3 fuel s b rest i argument c w hd r hl canarg s' e hp =>
    have := parseOption_log E help s r canarg argument
    rw [hp] at this; exact this
  | case4 fuel s b rest i argument c w hd r hl canarg s' hp ih =>
    have := parseOption_log E help s r canarg argument
    rw [hp] at this; exact this.trans ih
  | case5 => exact LogGrows.refl _

theorem parseShort_log (E : Env) (help : HelpFn) (s : PS) (optname : Bytes) (argument : Option Bytes) :
    LogGrows s.log (parseShort E help s optname argument).1.log := by
  unfold parseShort
  exact parseShortLoop_log ..

theorem addArgs_log (E : Env) (s : PS) (as : List Bytes) : (s.addArgs E as).1.log = s.log :=
  (addArgs_spec E s as).2.2.1

theorem parseNonOption_log (E : Env) (s : PS) : (parseNonOption E s).1.log = s.log := by
  unfold parseNonOption
  simp only
  split
  · exact addArgs_log ..
  · split
    · split
      · rfl
      · split <;> exact addArgs_log ..
    · exact addArgs_log ..

/-- the whole argument loop writes parse-time events only -/
theorem parseLoop_log (E : Env) (help : HelpFn) (fuel : Nat) (s : PS) :
    LogGrows s.log (parseLoop E help fuel s).log := by
  induction fuel generalizing s with
  | zero => exact LogGrows.refl _
  | succ fuel ih =>
    unfold parseLoop
    split
    · exact LogGrows.refl _
    · have hp := pop_log s
      generalize s.pop = sp at hp
      obtain ⟨s1, arg⟩ := sp
      simp only at hp ⊢
      split
      · rw [addArgs_log, hp]; exact LogGrows.refl _
      · split
        · split
          · split
            · next s2 e hadd =>
              have := addArgs_log E s1 [s1.arg]; rw [hadd] at this
              simp only at this; rw [this, hp]; exact LogGrows.refl _
            · next s2 hadd =>
              have := addArgs_log E s1 [s1.arg]; rw [hadd] at this
              simp only at this; rw [addArgs_log, this, hp]; exact LogGrows.refl _
          · have hn := parseNonOption_log E s1
            generalize parseNonOption E s1 = pr at hn
            obtain ⟨s2, stop⟩ := pr
            simp only at hn
            cases stop with
            | true => simp only; rw [hn, hp]; exact LogGrows.refl _
            | false => simp only; have := ih s2; rw [hn, hp] at this; exact this
        · generalize hres : (if (stripOptionPrefix arg).2.2 = true then
              parseLong E help s1 (splitOption (stripOptionPrefix arg).2.1 (stripOptionPrefix arg).2.2).1
                (splitOption (stripOptionPrefix arg).2.1 (stripOptionPrefix arg).2.2).2.2
            else
              parseShort E help s1 (splitOption (stripOptionPrefix arg).2.1 (stripOptionPrefix arg).2.2).1
                (splitOption (stripOptionPrefix arg).2.1 (stripOptionPrefix arg).2.2).2.2) = res
          have hl : LogGrows s.log res.1.log := by
            subst hres; rw [← hp]; split
            · exact parseLong_log ..
            · exact parseShort_log ..
          obtain ⟨s2, err⟩ := res
          simp only at hl
          cases err with
          | none => exact hl.trans (ih s2)
          | some e =>
            simp only
            cases unknownPolicyStops s2.P e
            · simp only [Bool.false_eq_true, if_false]
              cases s2.P.opts.ignoreUnknown
              · simp only [Bool.false_eq_true, if_false]
                split
                · exact hl.trans (LogGrows.snoc _ _ rfl)
                · exact (hl.trans (LogGrows.snoc _ _ rfl)).trans (ih _)
              · simp only [if_true]
                have := ih (s2.addArgs E [arg]).1
                rw [addArgs_log] at this
                exact hl.trans this
            · simp only [if_true]; exact hl

/-- **Nothing is executed while parsing**: every event of the parse phase is a callback or an
    unknown-option-handler call. -/
theorem parsePhase_log (E : Env) (help : HelpFn) (P : Parser) (argv : List Bytes) :
    ∀ ev ∈ (parsePhase E help P argv).log, ev.duringParse = true := by
  have h0 := parseLoop_log E help (4 * argv.length + 16) (({ P := P, args := argv } : PS).fill 0)
  have hl : LogGrows [] (parsePhase E help P argv).log := by
    unfold parsePhase
    simp only
    split
    · rw [checkRequired_log]
      exact (show LogGrows [] _ from h0).trans (clearDefaultsAll_log ..)
    · exact h0
  obtain ⟨d, hd, hp⟩ := hl
  intro ev hev
  rw [hd] at hev
  exact hp ev (by simpa using hev)

end GoFlags
