/-
  UTF-8 decoding across a boundary, `range` over a concatenation, and `strings.TrimSpace`:
  when it leaves a string alone (ASCII ends, printable strings) — the lemmas behind the INI
  write/read round trip.
-/
import GoFlags.Lemmas.Quote
import GoFlags.Ini
set_option maxRecDepth 8192
namespace GoFlags
open Bytes

theorem lo3_ge (b : Nat) : 0x80 ≤ lo3 b := by unfold lo3; split <;> omega
theorem hi3_le (b : Nat) : hi3 b ≤ 0xBF := by unfold hi3; split <;> omega
theorem lo4_ge (b : Nat) : 0x80 ≤ lo4 b := by unfold lo4; split <;> omega
theorem hi4_le (b : Nat) : hi4 b ≤ 0xBF := by unfold hi4; split <;> omega

/-- what follows a string does not change how its first character decodes, when it starts with a
    byte that cannot continue a character -/
theorem decodeRune_append_noncont (s : Bytes) (x : Nat) (y : Bytes) (hs : s ≠ []) (hx : isCont x = false) :
    decodeRune (s ++ x :: y) = decodeRune s := by
  have hx' : x < 0x80 ∨ 0xBF < x := by
    simp only [isCont, Bool.and_eq_false_iff, decide_eq_false_iff_not] at hx; omega
  have l3 := lo3_ge; have h3 := hi3_le; have l4 := lo4_ge; have h4 := hi4_le
  match s, hs with
  | [b0], _ =>
    simp only [List.cons_append, List.nil_append]
    unfold decodeRune
    simp only [hx]
    repeat' split
    all_goals (first | rfl | (simp_all; done) | (exfalso; simp_all; have := l3 b0; have := h3 b0; have := l4 b0; have := h4 b0; omega))
  | [b0, b1], _ =>
    simp only [List.cons_append, List.nil_append]
    unfold decodeRune
    simp only [hx, Bool.and_false]
    repeat' split
    all_goals (first | rfl | (simp_all; done) | (exfalso; simp_all; have := l3 b0; have := h3 b0; have := l4 b0; have := h4 b0; omega))
  | [b0, b1, b2], _ =>
    simp only [List.cons_append, List.nil_append]
    unfold decodeRune
    simp only [hx, Bool.and_false]
    repeat' split
    all_goals (first | rfl | (simp_all; done) | (exfalso; simp_all; have := l3 b0; have := h3 b0; have := l4 b0; have := h4 b0; omega))
  | b0 :: b1 :: b2 :: b3 :: r, _ =>
    simp only [List.cons_append]
    unfold decodeRune
    rfl

theorem runes_cons (b : Nat) (t : Bytes) :
    runes (b :: t) = (decodeRune (b :: t)).1 :: runes ((b :: t).drop (decodeRune (b :: t)).2) := by
  rw [runes]

theorem runes_nil : runes [] = [] := by rw [runes]

/-- the characters of a string followed by a byte that cannot continue a character -/
theorem runes_append_noncont (a : Bytes) (x : Nat) (y : Bytes) (hx : isCont x = false) :
    runes (a ++ x :: y) = runes a ++ runes (x :: y) := by
  induction hn : a.length using Nat.strongRecOn generalizing a with
  | _ n ih =>
    cases a with
    | nil => simp [runes_nil]
    | cons b t =>
      have hdec := decodeRune_append_noncont (b :: t) x y (by simp) hx
      have hw := decodeRune_width_le (b :: t)
      have hpos := decodeRune_width_pos (b :: t) (by simp)
      rw [show (b :: t) ++ x :: y = b :: (t ++ x :: y) from rfl, runes_cons, runes_cons b t]
      rw [show b :: (t ++ x :: y) = (b :: t) ++ x :: y from rfl, hdec]
      have hdrop : ((b :: t) ++ x :: y).drop (decodeRune (b :: t)).2 = (b :: t).drop (decodeRune (b :: t)).2 ++ x :: y := by
        rw [List.drop_append_of_le_length hw]
      rw [hdrop]
      have := ih ((b :: t).drop (decodeRune (b :: t)).2).length (by
        subst hn
        simp only [List.length_drop, List.length_cons] at hw hpos ⊢; omega) _ rfl
      rw [this]
      rfl

theorem runes_ascii (c : Nat) (y : Bytes) (hc : c < 0x80) : runes (c :: y) = c :: runes y := by
  rw [runes_cons]
  simp [decodeRune, hc]

theorem runes_encodeRune (r : Nat) (hv : validRune r = true) : runes (encodeRune r) = [r] := by
  have h := decodeRune_encodeRune r hv []
  simp only [List.append_nil] at h
  cases he : encodeRune r with
  | nil => have := encodeRune_length_pos r; simp [he] at this
  | cons b t =>
    rw [he] at h
    rw [runes_cons, h]
    simp [runes_nil]

/-! ### trimming -/

theorem trimLeft_nil : trimLeft [] = [] := by rw [trimLeft]

theorem trimLeft_cons (b : Nat) (t : Bytes) :
    trimLeft (b :: t) = if isSpaceRune (decodeRune (b :: t)).1 then trimLeft ((b :: t).drop (decodeRune (b :: t)).2) else b :: t := by
  rw [trimLeft]

theorem trimLeft_length_le (s : Bytes) : (trimLeft s).length ≤ s.length := by
  induction hn : s.length using Nat.strongRecOn generalizing s with
  | _ n ih =>
    cases s with
    | nil => simp [trimLeft_nil]
    | cons b t =>
      rw [trimLeft_cons]
      split
      · have hpos := decodeRune_width_pos (b :: t) (by simp)
        have := ih ((b :: t).drop (decodeRune (b :: t)).2).length (by
          subst hn; simp only [List.length_drop, List.length_cons] at hpos ⊢; omega) _ rfl
        subst hn
        simp only [List.length_drop, List.length_cons] at this ⊢
        omega
      · subst hn; exact Nat.le_refl _

/-- a string `trimLeft` leaves alone starts with a character that is not white space -/
theorem first_not_space_of_trimLeft_fix (b : Nat) (t : Bytes) (h : trimLeft (b :: t) = b :: t) :
    isSpaceRune (decodeRune (b :: t)).1 = false := by
  rw [trimLeft_cons] at h
  cases hs : isSpaceRune (decodeRune (b :: t)).1 with
  | false => rfl
  | true =>
    rw [hs] at h
    simp only [if_true] at h
    have hle := trimLeft_length_le ((b :: t).drop (decodeRune (b :: t)).2)
    have hpos := decodeRune_width_pos (b :: t) (by simp)
    rw [h] at hle
    simp only [List.length_drop, List.length_cons] at hle hpos
    omega

theorem trimLeft_fix_append (a : Bytes) (x : Nat) (y : Bytes) (ha : a ≠ []) (h : trimLeft a = a) (hx : isCont x = false) :
    trimLeft (a ++ x :: y) = a ++ x :: y := by
  cases a with
  | nil => exact absurd rfl ha
  | cons b t =>
    have hns := first_not_space_of_trimLeft_fix b t h
    rw [show (b :: t) ++ x :: y = b :: (t ++ x :: y) from rfl, trimLeft_cons]
    rw [show b :: (t ++ x :: y) = (b :: t) ++ x :: y from rfl, decodeRune_append_noncont (b :: t) x y (by simp) hx, hns]
    simp

theorem trimLeft_space (s : Bytes) : trimLeft (0x20 :: s) = trimLeft s := by
  rw [trimLeft_cons]
  simp [decodeRune, isSpaceRune]

theorem trimLeft_ascii_nonspace (b : Nat) (t : Bytes) (hb : b < 0x80) (hns : isAsciiSpace b = false) :
    trimLeft (b :: t) = b :: t := by
  rw [trimLeft_cons]
  have : isSpaceRune (decodeRune (b :: t)).1 = false := by
    simp only [decodeRune, hb, if_true]
    simp only [isAsciiSpace, Bool.or_eq_false_iff, decide_eq_false_iff_not, Bool.and_eq_false_iff] at hns
    simp only [isSpaceRune, Bool.or_eq_false_iff, decide_eq_false_iff_not, Bool.and_eq_false_iff]
    omega
  simp [this]

theorem trimRevStep_ascii_nonspace (c : Nat) (r : Bytes) (hc : c < 0x80) (hns : isAsciiSpace c = false) :
    trimRevStep (c :: r) = none := by
  unfold trimRevStep
  simp only [hns, Bool.false_eq_true, if_false]
  have : spaceRunesMB.find? (fun sp => hasPrefix (c :: r) (encodeRune sp).reverse) = none := by
    rw [List.find?_eq_none]
    intro sp hsp
    simp only [spaceRunesMB, List.mem_cons, List.mem_nil_iff, or_false] at hsp
    rcases hsp with h | h | h | h | h | h | h | h | h | h | h | h | h | h | h | h | h | h | h <;>
      (subst h; simp [encodeRune, validRune, hasPrefix]; omega)
  rw [this]

theorem trimRight_ascii_nonspace (s : Bytes) (c : Nat) (hc : c < 0x80) (hns : isAsciiSpace c = false) :
    trimRight (s ++ [c]) = s ++ [c] := by
  unfold trimRight trimRev
  simp only [List.reverse_append, List.reverse_cons, List.reverse_nil, List.nil_append, List.cons_append,
    List.length_cons]
  unfold trimRevFuel
  rw [trimRevStep_ascii_nonspace c _ hc hns]
  simp

theorem trimRight_space (s : Bytes) : trimRight (s ++ [0x20]) = trimRight s := by
  unfold trimRight trimRev
  simp only [List.reverse_append, List.reverse_cons, List.reverse_nil, List.nil_append, List.cons_append,
    List.length_cons, List.length_reverse]
  conv => lhs; unfold trimRevFuel
  simp [trimRevStep, isAsciiSpace]

theorem hasPrefix_elim (s p : Bytes) (h : hasPrefix s p = true) : ∃ r, s = p ++ r := by
  induction p generalizing s with
  | nil => exact ⟨s, rfl⟩
  | cons b p ih =>
    cases s with
    | nil => simp [hasPrefix] at h
    | cons a s =>
      simp only [hasPrefix, Bool.and_eq_true, beq_iff_eq] at h
      obtain ⟨r, hr⟩ := ih s h.2
      exact ⟨r, by rw [h.1, hr]; rfl⟩

/-- assumption on the `strconv.IsPrint` oracle (true of Go, checked by the harness on every run):
    no white-space character beyond U+00FF is printable -/
def Env.spacesNotPrintable (E : Env) : Prop := ∀ r, 0x100 ≤ r → isSpaceRune r = true → E.isPrintHi r = false

/-- a printable character that is white space is the ASCII blank -/
theorem printable_space_is_blank (E : Env) (hE : E.spacesNotPrintable) (r : Nat)
    (hp : isPrintRune E r = true) (hs : isSpaceRune r = true) : r = 0x20 := by
  unfold isPrintRune at hp
  by_cases h1 : r < 0x80
  · simp only [h1, if_true, Bool.and_eq_true, decide_eq_true_eq] at hp
    simp only [isSpaceRune, Bool.or_eq_true, decide_eq_true_eq, Bool.and_eq_true] at hs
    omega
  · simp only [h1, if_false] at hp
    by_cases h2 : r < 0x100
    · simp only [h2, if_true, Bool.and_eq_true, decide_eq_true_eq, bne_iff_ne, ne_eq] at hp
      simp only [isSpaceRune, Bool.or_eq_true, decide_eq_true_eq, Bool.and_eq_true] at hs
      omega
    · simp only [h2, if_false] at hp
      have := hE r (by omega) hs
      rw [this] at hp; cases hp

theorem decodeRune_ascii_result (b : Nat) (t : Bytes) (h : (decodeRune (b :: t)).1 < 0x80) : (decodeRune (b :: t)).1 = b := by
  by_cases herr : (decodeRune (b :: t)).2 = 1 ∧ (decodeRune (b :: t)).1 = runeError
  · rw [herr.2] at h; simp [runeError] at h
  · obtain ⟨_, hs⟩ := decodeRune_valid (b :: t) herr (by simp)
    have he : encodeRune (decodeRune (b :: t)).1 = [(decodeRune (b :: t)).1] := by simp [encodeRune, h]
    rw [he] at hs
    simp only [List.cons_append, List.nil_append] at hs
    injection hs with h1 _
    exact h1.symm

theorem trimLeft_printable (E : Env) (hE : E.spacesNotPrintable) (v : Bytes) (hp : isPrintStr E v = true)
    (hh : v.head? ≠ some 0x20) : trimLeft v = v := by
  cases v with
  | nil => exact trimLeft_nil
  | cons b t =>
    rw [trimLeft_cons]
    have hpr : isPrintRune E (decodeRune (b :: t)).1 = true := by
      unfold isPrintStr at hp
      rw [runes_cons] at hp
      simp only [List.all_cons, Bool.and_eq_true] at hp
      exact hp.1
    have : isSpaceRune (decodeRune (b :: t)).1 = false := by
      cases hs : isSpaceRune (decodeRune (b :: t)).1 with
      | false => rfl
      | true =>
        have h20 := printable_space_is_blank E hE _ hpr hs
        have := decodeRune_ascii_result b t (by rw [h20]; decide)
        rw [h20] at this
        exfalso; apply hh; simp [← this]
    simp [this]

theorem trimRight_nil : trimRight [] = [] := by
  simp [trimRight, trimRev, trimRevFuel]

theorem getLast?_append_cons (a : List Nat) (m0 : Nat) (mt : List Nat) :
    (a ++ (m0 :: mt)).getLast? = (m0 :: mt).getLast? := by
  rw [List.getLast?_append]
  cases h : (m0 :: mt).getLast? with
  | none => simp at h
  | some x => rfl

/-- a printable string that does not end in a blank is not trimmed on the right — alone, or after
    anything that ends in a blank (as the value in `key = value`) -/
theorem trimRight_printable_after (E : Env) (hE : E.spacesNotPrintable) (pre v : Bytes)
    (hpre : pre = [] ∨ ∃ a, pre = a ++ [0x20]) (hp : isPrintStr E v = true) (hne : v ≠ [])
    (hl : v.getLast? ≠ some 0x20) : trimRight (pre ++ v) = pre ++ v := by
  rcases List.eq_nil_or_concat v with rfl | ⟨init, c, rfl⟩
  · exact absurd rfl hne
  · simp only [List.concat_eq_append] at hp hl ⊢
    have hstep : trimRevStep (c :: (pre ++ init).reverse) = none := by
      unfold trimRevStep
      have hc20 : c ≠ 0x20 := by intro e; apply hl; simp [e]
      have hasc : isAsciiSpace c = false := by
        cases ha : isAsciiSpace c with
        | false => rfl
        | true =>
          exfalso
          simp only [isAsciiSpace, Bool.or_eq_true, decide_eq_true_eq, Bool.and_eq_true] at ha
          have hc : c < 0x80 := by omega
          have hcont : isCont c = false := by simp [isCont]; omega
          have hr : runes (init ++ [c]) = runes init ++ [c] := by
            rw [runes_append_noncont init c [] hcont, runes_ascii c [] hc, runes_nil]
          unfold isPrintStr at hp
          rw [hr] at hp
          simp only [List.all_append, List.all_cons, List.all_nil, Bool.and_true, Bool.and_eq_true] at hp
          have := hp.2
          unfold isPrintRune at this
          simp only [hc, if_true, Bool.and_eq_true, decide_eq_true_eq] at this
          omega
      simp only [hasc, Bool.false_eq_true, if_false]
      have : spaceRunesMB.find? (fun sp => hasPrefix (c :: (pre ++ init).reverse) (encodeRune sp).reverse) = none := by
        rw [List.find?_eq_none]
        intro sp hsp hpre'
        obtain ⟨rest, hrest⟩ := hasPrefix_elim _ _ hpre'
        -- the whole string ends with the encoding of the white-space character sp
        have hv : pre ++ (init ++ [c]) = rest.reverse ++ encodeRune sp := by
          have := congrArg List.reverse hrest
          simpa using this
        have hspv : validRune sp = true ∧ isSpaceRune sp = true ∧ 0x80 ≤ sp ∧
            ∃ x y, encodeRune sp = x :: y ∧ isCont x = false := by
          simp only [spaceRunesMB, List.mem_cons, List.mem_nil_iff, or_false] at hsp
          rcases hsp with h | h | h | h | h | h | h | h | h | h | h | h | h | h | h | h | h | h | h <;>
            (subst h; exact ⟨by decide, by decide, by decide, _, _, by simp [encodeRune, validRune]; exact ⟨rfl, rfl⟩, by decide⟩)
        obtain ⟨hval, hsps, hge, x, y, he, hxc⟩ := hspv
        -- the encoding lies inside the value: otherwise it would contain the blank before it
        have hin : ∃ m, init ++ [c] = m ++ encodeRune sp := by
          rcases List.append_eq_append_iff.mp hv with ⟨m, h1, h2⟩ | ⟨m, h1, h2⟩
          · exact ⟨m, h2⟩
          · -- encodeRune sp = m ++ value, pre = rest.reverse ++ m
            cases m with
            | nil => exact ⟨[], by simpa using h2.symm⟩
            | cons m0 mt =>
              exfalso
              rcases hpre with hnil | ⟨a, ha⟩
              · rw [hnil] at h1; simp at h1
              · have hmem : 0x20 ∈ (m0 :: mt) := by
                  have hl' : (rest.reverse ++ (m0 :: mt)).getLast? = some 0x20 := by rw [← h1, ha]; simp
                  rw [getLast?_append_cons] at hl'
                  exact List.mem_of_getLast? hl'
                have : 0x20 ∈ encodeRune sp := by rw [h2]; exact List.mem_append_left _ hmem
                exact encodeRune_no_ascii sp 0x20 (by decide) (by omega) this
        obtain ⟨m, hm⟩ := hin
        have hr : runes (init ++ [c]) = runes m ++ [sp] := by
          rw [hm, he, runes_append_noncont _ x y hxc, ← he, runes_encodeRune sp hval]
        unfold isPrintStr at hp
        rw [hr] at hp
        simp only [List.all_append, List.all_cons, List.all_nil, Bool.and_true, Bool.and_eq_true] at hp
        have h20 := printable_space_is_blank E hE sp hp.2 hsps
        omega
      rw [this]
    have e : pre ++ (init ++ [c]) = (pre ++ init) ++ [c] := by simp
    rw [e]
    unfold trimRight trimRev
    simp only [List.reverse_append, List.reverse_cons, List.reverse_nil, List.nil_append, List.cons_append,
      List.length_cons]
    unfold trimRevFuel
    have : c :: (init.reverse ++ pre.reverse) = c :: (pre ++ init).reverse := by simp
    rw [this, hstep]
    simp

theorem trimRight_printable (E : Env) (hE : E.spacesNotPrintable) (v : Bytes) (hp : isPrintStr E v = true)
    (hl : v.getLast? ≠ some 0x20) : trimRight v = v := by
  by_cases hne : v = []
  · rw [hne]; exact trimRight_nil
  · have := trimRight_printable_after E hE [] v (Or.inl rfl) hp hne hl
    simpa using this

end GoFlags
