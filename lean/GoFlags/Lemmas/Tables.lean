/-
  Lemmas about the flat tables: `listModify`, `Parser.modOpt`, `Parser.opt`.
-/
import GoFlags.Decl

namespace GoFlags

theorem listModify_length {α} (l : List α) (i : Nat) (f : α → α) : (listModify l i f).length = l.length := by
  induction l generalizing i with
  | nil => simp [listModify]
  | cons a r ih => cases i <;> simp [listModify, ih]

theorem listModify_getD_same {α} (l : List α) (i : Nat) (f : α → α) (d : α) (h : i < l.length) :
    (listModify l i f).getD i d = f (l.getD i d) := by
  induction l generalizing i with
  | nil => simp at h
  | cons a r ih =>
    cases i with
    | zero => simp [listModify]
    | succ i => simp [listModify]; exact ih i (by simpa using h)

theorem listModify_getD_ne {α} (l : List α) (i j : Nat) (f : α → α) (d : α) (h : i ≠ j) :
    (listModify l i f).getD j d = l.getD j d := by
  induction l generalizing i j with
  | nil => simp [listModify]
  | cons a r ih =>
    cases i with
    | zero =>
      cases j with
      | zero => exact absurd rfl h
      | succ j => simp [listModify]
    | succ i =>
      cases j with
      | zero => simp [listModify]
      | succ j => simp [listModify]; exact ih i j (by omega)

theorem listModify_of_le {α} (l : List α) (i : Nat) (f : α → α) (h : l.length ≤ i) : listModify l i f = l := by
  induction l generalizing i with
  | nil => simp [listModify]
  | cons a t ih =>
    cases i with
    | zero => simp at h
    | succ n => simp only [listModify]; congr 1; exact ih n (by simpa using h)

/-- an option reference that points at an existing option -/
def ORef.valid (P : Parser) (r : ORef) : Prop :=
  r.c < P.cmds.length ∧ r.g < (P.cmd r.c).groups.length ∧ r.o < ((P.cmd r.c).groups.getD r.g {}).opts.length

theorem Parser.cmd_modCmd_same (P : Parser) (i : Nat) (f : Cmd → Cmd) (h : i < P.cmds.length) :
    (P.modCmd i f).cmd i = f (P.cmd i) := by
  unfold Parser.modCmd Parser.cmd
  exact listModify_getD_same _ _ _ _ h

theorem Parser.cmd_modCmd_ne (P : Parser) (i j : Nat) (f : Cmd → Cmd) (h : i ≠ j) :
    (P.modCmd i f).cmd j = P.cmd j := by
  unfold Parser.modCmd Parser.cmd
  exact listModify_getD_ne _ _ _ _ _ h

theorem Parser.modCmd_of_le (P : Parser) (i : Nat) (f : Cmd → Cmd) (h : P.cmds.length ≤ i) :
    P.modCmd i f = P := by
  unfold Parser.modCmd; rw [listModify_of_le _ _ _ h]

/-- writing an option changes that option as stated … -/
theorem Parser.opt_modOpt_same (P : Parser) (r : ORef) (f : Opt → Opt) (h : r.valid P) :
    (P.modOpt r f).opt r = f (P.opt r) := by
  obtain ⟨hc, hg, ho⟩ := h
  simp only [Parser.modOpt, Parser.opt]
  rw [Parser.cmd_modCmd_same _ _ _ hc]
  simp only
  rw [listModify_getD_same _ _ _ _ hg]
  simp only
  rw [listModify_getD_same _ _ _ _ ho]

/-- … and no other option -/
theorem Parser.opt_modOpt_ne (P : Parser) (r r' : ORef) (f : Opt → Opt) (h : r ≠ r') :
    (P.modOpt r f).opt r' = P.opt r' := by
  simp only [Parser.modOpt, Parser.opt]
  by_cases hc : r.c = r'.c
  · by_cases hcl : r.c < P.cmds.length
    · rw [← hc, Parser.cmd_modCmd_same _ _ _ hcl]
      simp only
      by_cases hg : r.g = r'.g
      · by_cases hgl : r.g < (P.cmd r.c).groups.length
        · rw [← hg, listModify_getD_same _ _ _ _ hgl]
          simp only
          have ho : r.o ≠ r'.o := by
            intro ho; apply h; cases r; cases r'; simp_all
          rw [listModify_getD_ne _ _ _ _ _ ho]
        · rw [listModify_of_le _ _ _ (by omega)]
      · rw [listModify_getD_ne _ _ _ _ _ hg]
    · rw [Parser.modCmd_of_le _ _ _ (by omega)]
  · rw [Parser.cmd_modCmd_ne _ _ _ _ hc]

end GoFlags

namespace GoFlags

theorem ORef.valid_modOpt (P : Parser) (r r' : ORef) (f : Opt → Opt) (h : r'.valid P) :
    r'.valid (P.modOpt r f) := by
  obtain ⟨a, b, c⟩ := h
  unfold ORef.valid
  have hlen : (P.modOpt r f).cmds.length = P.cmds.length := by
    simp [Parser.modOpt, Parser.modCmd, listModify_length]
  refine ⟨by omega, ?_, ?_⟩
  · by_cases hc : r.c = r'.c
    · by_cases hcl : r.c < P.cmds.length
      · unfold Parser.modOpt; rw [← hc, Parser.cmd_modCmd_same _ _ _ hcl]
        simp only [listModify_length]; rw [hc]; exact b
      · unfold Parser.modOpt; rw [Parser.modCmd_of_le _ _ _ (by omega)]; exact b
    · unfold Parser.modOpt; rw [Parser.cmd_modCmd_ne _ _ _ _ hc]; exact b
  · by_cases hc : r.c = r'.c
    · by_cases hcl : r.c < P.cmds.length
      · unfold Parser.modOpt; rw [← hc, Parser.cmd_modCmd_same _ _ _ hcl]
        simp only
        by_cases hg : r.g = r'.g
        · by_cases hgl : r.g < (P.cmd r.c).groups.length
          · rw [← hg, listModify_getD_same _ _ _ _ hgl]
            simp only [listModify_length]; rw [hg, hc]; exact c
          · rw [listModify_of_le _ _ _ (by omega)]; rw [hc]; exact c
        · rw [listModify_getD_ne _ _ _ _ _ hg]; rw [hc]; exact c
      · unfold Parser.modOpt; rw [Parser.modCmd_of_le _ _ _ (by omega)]; exact c
    · unfold Parser.modOpt; rw [Parser.cmd_modCmd_ne _ _ _ _ hc]; exact c

end GoFlags

namespace GoFlags

theorem Parser.opt_modOpt_modOpt_same (P : Parser) (r : ORef) (f g : Opt → Opt) (h : r.valid P) :
    ((P.modOpt r f).modOpt r g).opt r = g (f (P.opt r)) := by
  rw [Parser.opt_modOpt_same _ _ _ (ORef.valid_modOpt _ _ _ _ h), Parser.opt_modOpt_same _ _ _ h]

end GoFlags

namespace GoFlags

/-- writing through `modOpt` either leaves an option as it was or applies `f` to it -/
theorem Parser.opt_modOpt_cases (P : Parser) (r r' : ORef) (f : Opt → Opt) :
    (P.modOpt r f).opt r' = P.opt r' ∨ (r = r' ∧ (P.modOpt r f).opt r' = f (P.opt r')) := by
  by_cases h : r = r'
  · subst h
    by_cases hv : r.valid P
    · right; exact ⟨rfl, Parser.opt_modOpt_same P r f hv⟩
    · left
      -- an invalid reference modifies nothing
      unfold ORef.valid at hv
      simp only [Parser.modOpt, Parser.opt]
      by_cases hc : r.c < P.cmds.length
      · rw [Parser.cmd_modCmd_same _ _ _ hc]
        simp only
        by_cases hg : r.g < (P.cmd r.c).groups.length
        · rw [listModify_getD_same _ _ _ _ hg]
          simp only
          have ho : ¬ r.o < ((P.cmd r.c).groups.getD r.g {}).opts.length := fun ho => hv ⟨hc, hg, ho⟩
          rw [listModify_of_le _ _ _ (by omega)]
        · rw [listModify_of_le _ _ _ (by omega)]
      · rw [Parser.modCmd_of_le _ _ _ (by omega)]
  · left; exact Parser.opt_modOpt_ne P r r' f h

/-- a field that `f` preserves is preserved by `modOpt` on every option -/
theorem Parser.modOpt_preserves {α} (P : Parser) (r r' : ORef) (f : Opt → Opt) (proj : Opt → α)
    (hf : ∀ o, proj (f o) = proj o) : proj ((P.modOpt r f).opt r') = proj (P.opt r') := by
  rcases Parser.opt_modOpt_cases P r r' f with h | ⟨_, h⟩
  · rw [h]
  · rw [h, hf]

end GoFlags
