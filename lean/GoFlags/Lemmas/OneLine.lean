/-
  What the INI writer emits for one string value is ONE physical line: no raw line feed inside.
  A printable string contains no line feed; a quoted literal (`strconv.Quote`) escapes it.
  And a text made of lines, each closed by a line feed, is split back into exactly those lines.
-/
import GoFlags.Strconv
import GoFlags.Ini
import GoFlags.Lemmas.Trim
namespace GoFlags
open Bytes

/-- the bytes a decoding step consumes behind the first one are continuation bytes: 0x80 and above -/
theorem decodeRune_consumed_hi (b : Nat) (t : Bytes) :
    ∀ x ∈ t.take ((decodeRune (b :: t)).2 - 1), 0x80 ≤ x := by
  have h3 := lo3_ge b
  have h4 := lo4_ge b
  rcases t with _ | ⟨b1, _ | ⟨b2, _ | ⟨b3, t3⟩⟩⟩ <;> simp only [decodeRune] <;> repeat' split
  all_goals (simp_all [isCont])
  all_goals (try omega)

/-- a byte below 0x80 that occurs in a string occurs among its runes (it can only be decoded as
    itself: continuation bytes are 0x80 and above) -/
theorem ascii_byte_in_runes (c : Nat) (hc : c < 0x80) : ∀ (n : Nat) (s : Bytes), s.length ≤ n → c ∈ s → c ∈ runes s := by
  intro n
  induction n with
  | zero => intro s hl hm; cases s with | nil => cases hm | cons _ _ => simp at hl
  | succ n ih =>
    intro s hl hm
    cases s with
    | nil => cases hm
    | cons b t =>
      rw [runes_cons]
      by_cases hb : b = c
      · -- decoded as itself
        subst hb
        have : decodeRune (b :: t) = (b, 1) := by simp [decodeRune, hc]
        rw [this]; simp
      · have hmt : c ∈ t := by
          rcases List.mem_cons.mp hm with h | h
          · exact absurd h.symm hb
          · exact h
        -- whatever the width, the bytes consumed after b are ≥ 0x80, hence not c
        have hw := decodeRune_width_pos (b :: t) (by simp)
        have hkey : c ∈ (b :: t).drop (decodeRune (b :: t)).2 := by
          have hd : (b :: t).drop (decodeRune (b :: t)).2 = t.drop ((decodeRune (b :: t)).2 - 1) := by
            cases hk : (decodeRune (b :: t)).2 with
            | zero => omega
            | succ k => simp
          rw [hd]
          have hsplit := List.take_append_drop ((decodeRune (b :: t)).2 - 1) t
          rw [← hsplit] at hmt
          rcases List.mem_append.mp hmt with h | h
          · have := decodeRune_consumed_hi b t c h; omega
          · exact h
        apply List.mem_cons_of_mem
        apply ih _ _ hkey
        have := decodeRune_width_pos (b :: t) (by simp)
        simp only [List.length_drop, List.length_cons] at hl ⊢
        omega

theorem printable_has_no_newline (E : Env) (s : Bytes) (hp : isPrintStr E s = true) : 0x0A ∉ s := by
  intro hm
  have hr := ascii_byte_in_runes 0x0A (by decide) s.length s (Nat.le_refl _) hm
  unfold isPrintStr at hp
  rw [List.all_eq_true] at hp
  have := hp _ hr
  simp [isPrintRune] at this

theorem hexN_no_newline (n v : Nat) : 0x0A ∉ hexN n v := by
  induction n generalizing v with
  | zero => simp [hexN]
  | succ n ih =>
    simp only [hexN, List.mem_append, List.mem_singleton, not_or]
    refine ⟨ih _, ?_⟩
    unfold hexDigit
    split <;> omega

theorem encodeRune_no_newline (r : Nat) (h : r ≠ 0x0A) : 0x0A ∉ encodeRune r := by
  unfold encodeRune
  repeat' split
  all_goals (simp; try omega)

theorem escapeRune_no_newline (E : Env) (r : Nat) : 0x0A ∉ escapeRune E r := by
  unfold escapeRune
  split
  · next h =>
    simp only [Bool.or_eq_true, decide_eq_true_eq] at h
    simp only [List.mem_cons, List.mem_nil_iff, or_false, not_or]
    omega
  repeat' split
  all_goals first
    | (simp only [List.mem_append, not_or]; exact ⟨by decide, hexN_no_newline _ _⟩)
    | (rename_i hp; apply encodeRune_no_newline; intro e; subst e; simp [isPrintRune] at hp)
    | (simp_all; done)
    | (simp; omega)
    | decide

theorem quoteBody_no_newline (E : Env) (s : Bytes) : 0x0A ∉ quoteBody E s := by
  fun_induction quoteBody E s with
  | case1 => simp
  | case2 b t d hd ih =>
    simp only [List.mem_append, not_or]
    exact ⟨⟨by decide, hexN_no_newline _ _⟩, ih⟩
  | case3 b t d hd ih =>
    simp only [List.mem_append, not_or]
    exact ⟨escapeRune_no_newline E _, ih⟩

theorem quote_no_newline (E : Env) (s : Bytes) : 0x0A ∉ quote E s := by
  unfold quote
  have := quoteBody_no_newline E s
  simp [this]

/-- the written line for a string value, without its closing line feed, contains no line feed -/
theorem writeOption_is_one_line (E : Env) (name value : Bytes) (force : Bool) (hn : 0x0A ∉ name) :
    0x0A ∉ (writeOption E name true [] value false force).dropLast := by
  unfold writeOption
  simp only [Bool.true_and, List.nil_append, List.head?_nil, Bool.false_eq_true, if_false, ne_eq, not_true_eq_false]
  have hv : 0x0A ∉ (if (force || iniNeedsQuote E value) = true then quote E value else value) := by
    split
    · exact quote_no_newline E value
    · next h =>
      have hnq : iniNeedsQuote E value = false := by
        cases hq : iniNeedsQuote E value
        · rfl
        · simp [hq] at h
      unfold iniNeedsQuote at hnq
      have hp : isPrintStr E value = true := by
        cases hp : isPrintStr E value
        · simp [hp] at hnq
        · rfl
      exact printable_has_no_newline E value hp
  generalize (if (force || iniNeedsQuote E value) = true then quote E value else value) = w at hv
  rw [List.dropLast_concat]
  simp only [List.mem_append, not_or]
  refine ⟨⟨hn, by decide⟩, ?_⟩
  split
  · simp only [List.mem_append, not_or]; exact ⟨by decide, hv⟩
  · simp

theorem splitOn_line (l rest : Bytes) (h : 0x0A ∉ l) : splitOn 0x0A (l ++ 0x0A :: rest) = l :: splitOn 0x0A rest := by
  induction l with
  | nil => simp [splitOn]
  | cons a t ih =>
    have ha : a ≠ 0x0A := by intro e; apply h; simp [e]
    have ht : 0x0A ∉ t := by intro e; apply h; simp [e]
    simp only [List.cons_append, splitOn, ha, if_false]
    rw [ih ht]

theorem splitOn_ne_nil (c : Nat) (s : Bytes) : splitOn c s ≠ [] := by
  cases s with
  | nil => simp [splitOn]
  | cons a t =>
    unfold splitOn
    split
    · simp
    · split <;> simp

/-- **lines, each closed by a line feed, are read back as exactly those lines** -/
theorem iniLines_of_lines (ls : List Bytes) (h : ∀ l ∈ ls, 0x0A ∉ l) :
    iniLines (ls.flatMap fun l => l ++ [0x0A]) = ls := by
  have key : ∀ ls : List Bytes, (∀ l ∈ ls, 0x0A ∉ l) → splitOn 0x0A (ls.flatMap fun l => l ++ [0x0A]) = ls ++ [[]] := by
    intro ls
    induction ls with
    | nil => intro _; simp [splitOn]
    | cons l ls ih =>
      intro h
      simp only [List.flatMap_cons, List.append_assoc, List.singleton_append]
      rw [splitOn_line l _ (h l (by simp)), ih (fun l' hl' => h l' (by simp [hl']))]
      rfl
  unfold iniLines
  simp only [key ls h]
  simp

end GoFlags
