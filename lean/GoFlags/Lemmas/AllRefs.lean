/-
  `Parser.allORefs` (the order in which `eachOption` visits the options) lists every valid option
  reference exactly once.
-/
import GoFlags.Lemmas.Tables
namespace GoFlags
open Bytes

theorem zipIdx_pairwise_snd {α : Type} (l : List α) : List.Pairwise (fun a b : α × Nat => a.2 ≠ b.2) l.zipIdx := by
  have h : (List.map Prod.snd l.zipIdx).Nodup := by
    rw [List.zipIdx_map_snd]; exact List.nodup_range' 1
  rw [List.nodup_iff_pairwise_ne, List.pairwise_map] at h
  exact h

theorem Cmd.mem_orefs (c : Cmd) (ci : Nat) (r : ORef) :
    r ∈ c.orefs ci ↔ r.c = ci ∧ r.g < c.groups.length ∧ r.o < (c.groups.getD r.g {}).opts.length := by
  unfold Cmd.orefs
  simp only [List.mem_flatMap, List.mem_map, List.mem_range, Prod.exists]
  constructor
  · rintro ⟨g, gi, hmem, oi, hoi, rfl⟩
    rw [List.mem_zipIdx_iff_getElem?] at hmem
    simp only at hmem
    have hlt : gi < c.groups.length := by
      rcases Nat.lt_or_ge gi c.groups.length with h | h
      · exact h
      · rw [List.getElem?_eq_none h] at hmem; cases hmem
    refine ⟨rfl, hlt, ?_⟩
    simp only [List.getD_eq_getElem?_getD, hmem, Option.getD_some]
    exact hoi
  · rintro ⟨rfl, hg, ho⟩
    refine ⟨c.groups.getD r.g {}, r.g, ?_, r.o, ho, rfl⟩
    rw [List.mem_zipIdx_iff_getElem?]
    simp only [List.getD_eq_getElem?_getD, List.getElem?_eq_getElem hg, Option.getD_some]

theorem Cmd.orefs_nodup (c : Cmd) (ci : Nat) : (c.orefs ci).Nodup := by
  unfold Cmd.orefs
  rw [List.nodup_iff_pairwise_ne, List.pairwise_flatMap]
  constructor
  · rintro ⟨g, gi⟩ _
    simp only
    rw [List.pairwise_map]
    have := @List.nodup_range g.opts.length
    rw [List.nodup_iff_pairwise_ne] at this
    exact this.imp (fun h e => h (by injection e))
  · exact (zipIdx_pairwise_snd c.groups).imp (by
      rintro ⟨g1, i1⟩ ⟨g2, i2⟩ hne x hx y hy
      simp only [List.mem_map, List.mem_range] at hx hy
      obtain ⟨_, _, rfl⟩ := hx
      obtain ⟨_, _, rfl⟩ := hy
      intro e
      injection e with _ hg _
      exact hne hg)

/-- every valid reference is visited -/
theorem Parser.mem_allORefs (P : Parser) (r : ORef) : r ∈ P.allORefs ↔ r.valid P := by
  unfold Parser.allORefs ORef.valid
  simp only [List.mem_flatMap, Prod.exists]
  constructor
  · rintro ⟨c, ci, hmem, hr⟩
    rw [List.mem_zipIdx_iff_getElem?] at hmem
    simp only at hmem
    have hlt : ci < P.cmds.length := by
      rcases Nat.lt_or_ge ci P.cmds.length with h | h
      · exact h
      · rw [List.getElem?_eq_none h] at hmem; cases hmem
    obtain ⟨h1, h2, h3⟩ := (Cmd.mem_orefs c ci r).mp hr
    have hc : P.cmd r.c = c := by
      unfold Parser.cmd; rw [h1]; simp only [List.getD_eq_getElem?_getD, hmem, Option.getD_some]
    rw [hc]
    exact ⟨by rw [h1]; exact hlt, h2, h3⟩
  · rintro ⟨h1, h2, h3⟩
    refine ⟨P.cmd r.c, r.c, ?_, (Cmd.mem_orefs _ _ r).mpr ⟨rfl, h2, h3⟩⟩
    rw [List.mem_zipIdx_iff_getElem?]
    unfold Parser.cmd
    simp only [List.getD_eq_getElem?_getD, List.getElem?_eq_getElem h1, Option.getD_some]

/-- … and exactly once -/
theorem Parser.allORefs_nodup (P : Parser) : P.allORefs.Nodup := by
  unfold Parser.allORefs
  rw [List.nodup_iff_pairwise_ne, List.pairwise_flatMap]
  constructor
  · rintro ⟨c, ci⟩ _
    exact List.nodup_iff_pairwise_ne.mp (Cmd.orefs_nodup c ci)
  · exact (zipIdx_pairwise_snd P.cmds).imp (by
      rintro ⟨c1, i1⟩ ⟨c2, i2⟩ hne x hx y hy
      simp only at hx hy
      have h1 := ((Cmd.mem_orefs c1 i1 x).mp hx).1
      have h2 := ((Cmd.mem_orefs c2 i2 y).mp hy).1
      intro e
      apply hne
      simp only
      rw [← h1, ← h2, e])

end GoFlags
