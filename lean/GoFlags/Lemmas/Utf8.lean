/-
  UTF-8: decoding an encoded rune gives the rune back, for all four widths.
-/
import GoFlags.Bytes

set_option maxRecDepth 8192

namespace GoFlags.Bytes

/-- a rune that `string(rune)` encodes as itself -/
def encodable (r : Nat) : Prop := validRune r = true

theorem decodeRune_encodeRune (r : Nat) (h : validRune r = true) (rest : Bytes) :
    decodeRune (encodeRune r ++ rest) = (r, (encodeRune r).length) := by
  unfold validRune at h
  simp only [Bool.or_eq_true, decide_eq_true_eq, Bool.and_eq_true] at h
  unfold encodeRune
  by_cases h1 : r < 0x80
  · simp [h1, decodeRune]
  · simp only [h1, if_false]
    by_cases h2 : r < 0x800
    · simp only [h2, if_true, List.cons_append, List.nil_append, List.length_cons, List.length_nil]
      unfold decodeRune
      have a1 : ¬(0xC0 + r / 64 < 0x80) := by omega
      have a2 : ¬(0xC0 + r / 64 < 0xC2) := by omega
      have a3 : 0xC0 + r / 64 < 0xE0 := by omega
      have a4 : isCont (0x80 + r % 64) = true := by simp [isCont]; omega
      simp only [a1, a2, a3, a4, if_false, if_true]
      congr 1; omega
    · simp only [h2, if_false]
      have hv : validRune r = true := by unfold validRune; simp; exact h
      simp only [hv, Bool.not_true, Bool.false_eq_true, if_false]
      by_cases h3 : r < 0x10000
      · simp only [h3, if_true, List.cons_append, List.nil_append, List.length_cons, List.length_nil]
        unfold decodeRune
        have a1 : ¬(0xE0 + r / 4096 < 0x80) := by omega
        have a2 : ¬(0xE0 + r / 4096 < 0xC2) := by omega
        have a3 : ¬(0xE0 + r / 4096 < 0xE0) := by omega
        have a4 : 0xE0 + r / 4096 < 0xF0 := by omega
        simp only [a1, a2, a3, a4, if_false, if_true]
        have c1 : lo3 (0xE0 + r / 4096) ≤ 0x80 + r / 64 % 64 := by unfold lo3; split <;> omega
        have c2 : 0x80 + r / 64 % 64 ≤ hi3 (0xE0 + r / 4096) := by unfold hi3; split <;> omega
        have c3 : isCont (0x80 + r % 64) = true := by simp [isCont]; omega
        simp only [c1, c2, c3, decide_true, Bool.and_self, if_true]
        congr 1; omega
      · simp only [h3, if_false, List.cons_append, List.nil_append, List.length_cons, List.length_nil]
        unfold decodeRune
        have a1 : ¬(0xF0 + r / 262144 < 0x80) := by omega
        have a2 : ¬(0xF0 + r / 262144 < 0xC2) := by omega
        have a3 : ¬(0xF0 + r / 262144 < 0xE0) := by omega
        have a4 : ¬(0xF0 + r / 262144 < 0xF0) := by omega
        have a5 : 0xF0 + r / 262144 < 0xF5 := by omega
        simp only [a1, a2, a3, a4, a5, if_false, if_true]
        have c1 : lo4 (0xF0 + r / 262144) ≤ 0x80 + r / 4096 % 64 := by unfold lo4; split <;> omega
        have c2 : 0x80 + r / 4096 % 64 ≤ hi4 (0xF0 + r / 262144) := by unfold hi4; split <;> omega
        have c3 : isCont (0x80 + r / 64 % 64) = true := by simp [isCont]; omega
        have c4 : isCont (0x80 + r % 64) = true := by simp [isCont]; omega
        simp only [c1, c2, c3, c4, decide_true, Bool.and_self, if_true]
        congr 1; omega

theorem encodeRune_length_pos (r : Nat) : 0 < (encodeRune r).length := by
  unfold encodeRune; split <;> (try split) <;> (try split) <;> (try split) <;> simp

/-- no byte of a multi-byte encoding, and no ASCII rune other than c itself, equals an ASCII byte c -/
theorem encodeRune_no_ascii (r c : Nat) (hc : c < 0x80) (hne : r ≠ c) : c ∉ encodeRune r := by
  unfold encodeRune
  split
  · simp; omega
  · split
    · simp; omega
    · split
      · simp; omega
      · split <;> (simp; omega)

end GoFlags.Bytes
