/-
  Interleaved command lines FOLLOWED BY MORE: the argument loop over `items ++ tail` runs the
  per-token steps of the items and then goes on with `tail` — which is what the theorems about
  the terminator and about PassAfterNonOption need (everything behind a certain token is passed
  through).  Same proofs as Lemmas/Interleave, with the unread tail carried along.
-/
import GoFlags.Lemmas.Interleave
namespace GoFlags
open Bytes

/-- `applyItems` while `tail` is still unread behind the items -/
def applyItemsT (E : Env) (help : HelpFn) (tail : List Bytes) : PS → List Item → PS × Option GoErr
  | s, [] => (s, none)
  | s, .occ it :: rest =>
    match parseLong E help { s with arg := longToken it.1 it.2, args := renderItems rest ++ tail } it.1 it.2 with
    | (s', none) => applyItemsT E help tail s' rest
    | (s', some e) => (s', some e)
  | s, .word w :: rest =>
    match ({ s with arg := w, args := renderItems rest ++ tail } : PS).addArgs E [w] with
    | (s', none) => applyItemsT E help tail s' rest
    | (s', some e) => (s', some e)

/-- **The argument loop over `items ++ tail` is the fold of the per-token steps of the items,
    then the loop over `tail`** — for any number of items, any tail. -/
theorem parseLoop_of_items_tail (E : Env) (help : HelpFn) (tail : List Bytes) (items : List Item) :
    ∀ (fuel : Nat) (s : PS), s.args = renderItems items ++ tail → ItemsOK s items →
      (applyItemsT E help tail s items).2 = none →
      parseLoop E help (fuel + items.length) s = parseLoop E help fuel (applyItemsT E help tail s items).1 ∧
      (applyItemsT E help tail s items).1.args = tail ∧ (applyItemsT E help tail s items).1.cmd = s.cmd ∧
      SameDecl (applyItemsT E help tail s items).1.P s.P := by
  induction items with
  | nil =>
    intro fuel s hargs _ _
    simp only [applyItemsT, List.length_nil, Nat.add_zero]
    exact ⟨trivial, by simpa [renderItems] using hargs, trivial, SameDecl.refl _⟩
  | cons it rest ih =>
    intro fuel s hargs hok hres
    have hlen : fuel + (it :: rest).length = (fuel + rest.length) + 1 := by simp; omega
    rw [hlen]
    cases it with
    | occ o =>
      have hoo := hok.occs o (by simp [occsOf])
      have hargs' : s.args = longToken o.1 o.2 :: (renderItems rest ++ tail) := by
        simpa [renderItems, Item.render] using hargs
      rw [parseLoop_long_token E help (fuel + rest.length) s o.1 o.2 (renderItems rest ++ tail) hoo.1 hargs']
      unfold applyItemsT at hres ⊢
      have hk := occ_keeps E help s o (renderItems rest ++ tail) hoo
      generalize parseLong E help { s with arg := longToken o.1 o.2, args := renderItems rest ++ tail } o.1 o.2 = res at hk hres ⊢
      obtain ⟨s', e⟩ := res
      cases e with
      | some e => simp at hres
      | none =>
        simp only at hres hk ⊢
        obtain ⟨h1, h2, h3, h4⟩ := ih fuel s' hk.args (hok.step hk.cmd hk.decl) hres
        exact ⟨h1, h2, h3.trans hk.cmd, h4.trans hk.decl⟩
    | word w =>
      have hw := hok.words w (by simp [wordsOf])
      have hargs' : s.args = w :: (renderItems rest ++ tail) := by simpa [renderItems, Item.render] using hargs
      have hstep : (parseLoop E help (fuel + rest.length + 1) s =
          (match ({ s with arg := w, args := renderItems rest ++ tail } : PS).addArgs E [w] with
          | (s', some _) => s'
          | (s', none) => parseLoop E help (fuel + rest.length) s')) ∨
          parseLoop E help (fuel + rest.length + 1) s =
            parseLoop E help (fuel + rest.length) (({ s with arg := w, args := renderItems rest ++ tail } : PS).addArgs E [w]).1 := by
        rcases hw with hw | ⟨hi, n, a, rfl, ht, hl⟩
        · exact Or.inl (parseLoop_plain_word E help _ s w (renderItems rest ++ tail) hw hargs' hok.pa hok.subs)
        · exact Or.inr (parseLoop_ignored_unknown E help _ s n a (renderItems rest ++ tail) ht hargs' hl hi)
      unfold applyItemsT at hres ⊢
      have hfr := addArgs_frame E { s with arg := w, args := renderItems rest ++ tail } [w]
      have hd := addArgs_decl E { s with arg := w, args := renderItems rest ++ tail } [w]
      generalize ({ s with arg := w, args := renderItems rest ++ tail } : PS).addArgs E [w] = res at hfr hd hres hstep ⊢
      obtain ⟨s', e⟩ := res
      cases e with
      | some e => simp at hres
      | none =>
        simp only at hres hfr hd hstep ⊢
        have hgo : parseLoop E help (fuel + rest.length + 1) s = parseLoop E help (fuel + rest.length) s' := by
          rcases hstep with h | h <;> exact h
        rw [hgo]
        obtain ⟨h1, h2, h3, h4⟩ := ih fuel s' hfr.1 (hok.step hfr.2 hd) hres
        exact ⟨h1, h2, h3.trans hfr.2, h4.trans hd⟩

/-- as far as positional fields, the queue and the remaining arguments go, the items do what
    their words alone do — whatever is still unread behind them -/
theorem items_bind_like_words_alone_tail (E : Env) (help : HelpFn) (tail : List Bytes) (items : List Item) :
    ∀ (s t : PS), ArgsAgree s t → ItemsOK s items → (applyItemsT E help tail s items).2 = none →
      ArgsAgree (applyItemsT E help tail s items).1 (t.addArgs E (wordsOf items)).1 ∧ (t.addArgs E (wordsOf items)).2 = none := by
  induction items with
  | nil => intro s t h _ _; exact ⟨by simpa [applyItemsT, wordsOf, addArgs_nil] using h, by simp [wordsOf, addArgs_nil]⟩
  | cons it rest ih =>
    intro s t h hok hres
    cases it with
    | occ o =>
      have hoo := hok.occs o (by simp [occsOf])
      unfold applyItemsT at hres ⊢
      have hk := occ_keeps E help s o (renderItems rest ++ tail) hoo
      have ha := parseLong_args E help { s with arg := longToken o.1 o.2, args := renderItems rest ++ tail } o.1 o.2
      generalize parseLong E help { s with arg := longToken o.1 o.2, args := renderItems rest ++ tail } o.1 o.2 = res at hk ha hres ⊢
      obtain ⟨s', e⟩ := res
      cases e with
      | some e => simp at hres
      | none =>
        simp only at hres hk ha ⊢
        have h' : ArgsAgree s' t := ⟨hk.pos.trans h.pos, hk.ret.trans h.ret, ha.trans h.args⟩
        exact ih s' t h' (hok.step hk.cmd hk.decl) hres
    | word w =>
      unfold applyItemsT at hres ⊢
      simp only [wordsOf]
      rw [addArgs_cons E t w (wordsOf rest)]
      have hc := addArgs_congr E [w] { s with arg := w, args := renderItems rest ++ tail } t ⟨h.pos, h.ret, h.args⟩
      have hfr := addArgs_frame E { s with arg := w, args := renderItems rest ++ tail } [w]
      have hd := addArgs_decl E { s with arg := w, args := renderItems rest ++ tail } [w]
      generalize ({ s with arg := w, args := renderItems rest ++ tail } : PS).addArgs E [w] = res at hc hfr hd hres ⊢
      generalize t.addArgs E [w] = rt at hc ⊢
      obtain ⟨s', e⟩ := res
      obtain ⟨t', et⟩ := rt
      simp only at hc
      obtain ⟨hag, he⟩ := hc
      subst he
      cases e with
      | some e => simp at hres
      | none =>
        simp only at hres hfr hd ⊢
        exact ih s' t' hag (hok.step hfr.2 hd) hres

end GoFlags
