/-
  Lemmas about the Go-subset semantics (GoSem.lean) used by the translation theorems
  (Props/<id>/Trans.lean): `strings.Index` for one byte, `range` over a string, the two loop shapes
  the translated functions use, and "TrimSpace leaves a string alone iff no blank at either end".
-/
import GoFlags.GoSem
import GoFlags.Lemmas.Trim
import GoFlags.Lemmas.WrapLemmas

namespace GoFlags
open Bytes

theorem trimLeft_fix_or_shorter (s : Bytes) : trimLeft s = s ∨ (trimLeft s).length < s.length := by
  cases s with
  | nil => left; exact trimLeft_nil
  | cons b t =>
    rw [trimLeft_cons]
    split
    · right
      have hpos := decodeRune_width_pos (b :: t) (by simp)
      have := trimLeft_length_le ((b :: t).drop (decodeRune (b :: t)).2)
      simp only [List.length_drop, List.length_cons] at this hpos ⊢
      omega
    · left; rfl

theorem trimRight_length_le (s : Bytes) : (trimRight s).length ≤ s.length := by
  obtain ⟨suf, hsuf⟩ := trimRight_prefix s
  conv => rhs; rw [hsuf]
  simp

/-- a string `TrimSpace` leaves alone has no blank at either end -/
theorem trimSpace_fix_ends (s : Bytes) (h : trimSpace s = s) :
    s.head? ≠ some 0x20 ∧ s.getLast? ≠ some 0x20 := by
  refine ⟨by have := trimSpace_head s; rwa [h] at this, ?_⟩
  have hl : trimLeft s = s := by
    rcases trimLeft_fix_or_shorter s with h1 | h1
    · exact h1
    · exfalso
      have h2 := trimRight_length_le (trimLeft s)
      have : (trimSpace s).length = s.length := by rw [h]
      unfold trimSpace at this
      omega
  have hr : trimRight s = s := by unfold trimSpace at h; rwa [hl] at h
  intro hlast
  obtain ⟨u, hu⟩ : ∃ u, s = u ++ [0x20] := by
    rcases List.eq_nil_or_concat s with h0 | ⟨u, x, hx⟩
    · subst h0; simp at hlast
    · subst hx; simp at hlast; subst hlast; exact ⟨u, by simp⟩
  rw [hu, trimRight_space] at hr
  have := trimRight_length_le u
  rw [hr] at this
  simp at this
  omega

/-- for a printable string, "`TrimSpace` changes it" is "a blank at either end" -/
theorem printable_trimSpace_ne_iff (E : Env) (hE : E.spacesNotPrintable) (s : Bytes) (hp : isPrintStr E s = true) :
    decide (s ≠ trimSpace s) = (decide (s.head? = some 0x20) || decide (s.getLast? = some 0x20)) := by
  by_cases h : trimSpace s = s
  · have := trimSpace_fix_ends s h
    simp [h, this.1, this.2]
  · have h' : s ≠ trimSpace s := fun e => h e.symm
    simp only [h', ne_eq, not_false_eq_true, decide_true]
    by_cases h1 : s.head? = some 0x20
    · simp [h1]
    · by_cases h2 : s.getLast? = some 0x20
      · simp [h2]
      · exfalso; apply h
        have a := trimLeft_printable E hE s hp h1
        have b := trimRight_printable E hE s hp h2
        unfold trimSpace; rw [a, b]

end GoFlags

namespace GoFlags.Go
open GoFlags Bytes

theorem stringsIndexFrom_single (c : Nat) (s : Bytes) (i : Int) :
    stringsIndexFrom [c] s i = match indexByte c s with | some p => i + p | none => -1 := by
  induction s generalizing i with
  | nil => simp [stringsIndexFrom, indexByte]
  | cons a s ih =>
    by_cases h : a = c
    · simp [stringsIndexFrom, indexByte, hasPrefix, h]
    · simp only [stringsIndexFrom, indexByte, hasPrefix, h]
      rw [ih]
      cases indexByte c s with
      | none => simp [h]
      | some q => simp [h]; grind

theorem stringsIndex_single (c : Nat) (s : Bytes) :
    stringsIndex s [c] = match indexByte c s with | some p => (p : Int) | none => -1 := by
  simp [stringsIndex, stringsIndexFrom_single]

theorem indexByte_lt (c : Nat) (s : Bytes) (p : Nat) (h : indexByte c s = some p) : p < s.length := by
  induction s generalizing p with
  | nil => simp [indexByte] at h
  | cons a s ih =>
    by_cases ha : a = c
    · simp [indexByte, ha] at h; subst h; simp
    · simp [indexByte, ha] at h
      obtain ⟨q, hq, rfl⟩ := h
      have := ih q hq
      simp; omega

theorem runeSteps_runes (n : Nat) (s : Bytes) (off : Int) (h : s.length ≤ n) :
    (runeSteps n s off).map (·.2) = runes s := by
  induction n generalizing s off with
  | zero =>
    have : s = [] := by cases s <;> simp_all
    subst this; simp [runeSteps, runes_nil]
  | succ n ih =>
    cases s with
    | nil => simp [runeSteps, runes_nil]
    | cons b t =>
      rw [runes_cons]
      simp only [runeSteps, List.map_cons]
      congr 1
      apply ih
      have := decodeRune_width_pos (b :: t) (by simp)
      simp only [List.length_drop, List.length_cons] at *
      omega

/-- a loop that leaves with `false` at the first element failing `p` -/
theorem forRangeFrom_all {α : Type} (p : α → Bool) (body : Int → α → Unit → M (LoopR Bool Unit))
    (hb : ∀ i x st, body i x st = some (if p x then LoopR.next () else LoopR.ret false))
    (xs : List α) (i : Int) :
    forRangeFrom body xs i () = some (if xs.all p then LoopR.next () else LoopR.ret false) := by
  induction xs generalizing i with
  | nil => simp [forRangeFrom]
  | cons x xs ih =>
    cases hx : p x <;> simp [forRangeFrom, hb, hx, ih]

/-- a loop that stores `f x` at the index of `x`: it fills the slots one after the other -/
theorem forRangeFrom_fill {α β ρ : Type} (f : α → β) (body : Int → α → List β → M (LoopR ρ (List β)))
    (hb : ∀ i x st, body i x st = match setIdx st i (f x) with | some r => some (LoopR.next r) | none => none)
    (xs : List α) (pre post : List β) (hl : post.length = xs.length) :
    forRangeFrom body xs pre.length (pre ++ post) = some (LoopR.next (pre ++ xs.map f)) := by
  induction xs generalizing pre post with
  | nil =>
    have : post = [] := by cases post <;> simp_all
    subst this; simp [forRangeFrom]
  | cons x xs ih =>
    cases post with
    | nil => simp at hl
    | cons y post =>
      have h1 : setIdx (pre ++ y :: post) (pre.length : Int) (f x) = some (pre ++ f x :: post) := by
        unfold setIdx len
        have : (0:Int) ≤ ↑pre.length ∧ (↑pre.length : Int) < ↑(pre ++ y :: post).length := by
          simp; omega
        simp only [this, and_self, if_true]
        simp
      simp only [forRangeFrom, hb, h1]
      have := ih (pre ++ [f x]) post (by simpa using hl)
      simp only [List.length_append, List.length_cons, List.length_nil, List.append_assoc, List.cons_append,
        List.nil_append, List.map_cons] at this ⊢
      rw [← this]
      congr 1

theorem forRange_fill {α β ρ : Type} (f : α → β) (z : β) (body : Int → α → List β → M (LoopR ρ (List β)))
    (hb : ∀ i x st, body i x st = match setIdx st i (f x) with | some r => some (LoopR.next r) | none => none)
    (xs : List α) :
    forRange xs (List.replicate (len xs).toNat z) body = some (LoopR.next (xs.map f)) := by
  have := forRangeFrom_fill (ρ := ρ) f body hb xs [] (List.replicate (len xs).toNat z) (by simp [len])
  simpa [forRange] using this

/-! ### indexing at a known position (tables of the translated `levenshtein`) -/

theorem idx_nat {α : Type} (l : List α) (k : Nat) : idx l (k : Int) = l[k]? := by
  simp [idx]

theorem idx_nat_succ {α : Type} (l : List α) (k : Nat) : idx l ((k : Int) + 1) = l[k+1]? := by
  have : ((k : Int) + 1) = ((k + 1 : Nat) : Int) := by omega
  rw [this, idx_nat]

theorem setIdx_nat {α : Type} (l : List α) (k : Nat) (v : α) (h : k < l.length) :
    setIdx l (k : Int) v = some (l.set k v) := by
  have : (0:Int) ≤ ↑k ∧ (↑k : Int) < len l := by simp [len]; omega
  simp [setIdx, this]

theorem setIdx_nat_succ {α : Type} (l : List α) (k : Nat) (v : α) (h : k + 1 < l.length) :
    setIdx l ((k : Int) + 1) v = some (l.set (k+1) v) := by
  have : ((k : Int) + 1) = ((k + 1 : Nat) : Int) := by omega
  rw [this, setIdx_nat _ _ _ h]


theorem idx_at {α : Type} (a b : List α) (x : α) (k : Nat) (h : a.length = k) :
    idx (a ++ x :: b) (k : Int) = some x := by
  subst h; simp [idx_nat]

theorem idx_at1 {α : Type} (a b : List α) (x y : α) (k : Nat) (h : a.length = k) :
    idx (a ++ x :: y :: b) ((k : Int) + 1) = some y := by
  subst h; simp [idx_nat_succ]

theorem set_at1 {α : Type} (a b : List α) (x y v : α) (k : Nat) (h : a.length = k) :
    setIdx (a ++ x :: y :: b) ((k : Int) + 1) v = some (a ++ x :: v :: b) := by
  subst h
  rw [setIdx_nat_succ _ _ _ (by simp)]
  simp [List.set_append]


theorem set_at {α : Type} (a b : List α) (x v : α) (k : Nat) (h : a.length = k) :
    setIdx (a ++ x :: b) (k : Int) v = some (a ++ v :: b) := by
  subst h
  rw [setIdx_nat _ _ _ (by simp)]
  simp

end GoFlags.Go
