/-
  closest.go (after the D5 fix): Levenshtein distance over runes as the Go dynamic
  programme computes it (row by row), and `closestChoice`.
-/
import GoFlags.Bytes

namespace GoFlags
open Bytes

/-- One cell: `prevRow[j]` = diag, `prevRow[j+1]` = up, `left` = current row's previous cell. -/
def levCell (sc tc diag up left : Nat) : Nat :=
  if sc = tc then diag
  else
    let d := diag + 1
    let d := if left + 1 < d then left + 1 else d
    if up + 1 < d then up + 1 else d

/-- Fill one row: `prev` is the previous row from column `j` on (`prev = diag :: up :: …`),
    `left` the cell just written. Returns the new row from column `j+1` on. -/
def levRow (sc : Nat) : List Nat → List Nat → Nat → List Nat
  | tc :: t, diag :: up :: prev, left =>
    let c := levCell sc tc diag up left
    c :: levRow sc t (up :: prev) c
  | _, _, _ => []

/-- All rows: `row` is the current full row (`dists[i][0..]`), `i` its index. -/
def levRows : List Nat → List Nat → List Nat → Nat → List Nat
  | [], _, row, _ => row
  | sc :: s, t, row, i => levRows s t ((i + 1) :: levRow sc t row (i + 1)) (i + 1)

/-- The Go function on rune lists. -/
def levRunes (s t : List Nat) : Nat :=
  if s = [] then t.length
  else if t = [] then s.length
  else (levRows s t (List.range (t.length + 1)) 0).getLastD 0

/-- `levenshtein(s, t)`. -/
def levenshtein (s t : Bytes) : Nat := levRunes (runes s) (runes t)

/-- `closestChoice`: first choice of minimum distance; `([], 0)` for no choices. -/
def closestLoop (cmd : Bytes) : List Bytes → Bytes → Nat → Bytes × Nat
  | [], best, d => (best, d)
  | c :: cs, best, d =>
    let l := levenshtein cmd c
    if l < d then closestLoop cmd cs c l else closestLoop cmd cs best d

def closestChoice (cmd : Bytes) : List Bytes → Bytes × Nat
  | [] => ([], 0)
  | c :: cs => closestLoop cmd cs c (levenshtein cmd c)

end GoFlags
