import GoFlags.Driver.FnOps
import GoFlags.Driver.Case
open GoFlags GoFlags.Driver

/-- Requests: `oracle …` (no response); a function-level op (one response line); `sync`
    (responds `SYNC` on stdout and stderr so the harness can align the two streams);
    `case` … `run`: a whole-parser case, answered by its observation lines and `DONE`. -/
partial def loop (hIn : IO.FS.Stream) (hOut : IO.FS.Stream) (t : Tables) (cs : Option CaseState) : IO Unit := do
  let line ← hIn.getLine
  if line.isEmpty then return ()
  let ws := (line.trimAscii.toString.splitOn " ").filter (· ≠ "")
  match cs, ws with
  | _, [] => loop hIn hOut t cs
  | _, "oracle" :: rest =>
    match t.addOracle rest with
    | some t' => loop hIn hOut t' cs
    | none => hOut.putStrLn "BAD-ORACLE"; hOut.flush; loop hIn hOut t cs
  | _, ["sync"] =>
    IO.eprintln "SYNC"
    hOut.putStrLn "SYNC"; hOut.flush
    loop hIn hOut t cs
  | none, ["case"] => loop hIn hOut t (some {})
  | some st, ["run"] =>
    for l in st.out do hOut.putStrLn l
    match st.bad with
    | some m => hOut.putStrLn ("BAD-CASE " ++ m)
    | none => pure ()
    hOut.putStrLn "DONE"
    loop hIn hOut t none
  | some st, ws => loop hIn hOut t (some (caseLine t st ws))
  | none, _ =>
    match fnOp t.toEnv ws with
    | some r => hOut.putStrLn r
    | none => hOut.putStrLn "BAD-OP"
    loop hIn hOut t cs

def main : IO Unit := do
  loop (← IO.getStdin) (← IO.getStdout) {} none
