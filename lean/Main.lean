import GoFlags.Driver.FnOps
open GoFlags GoFlags.Driver

/-- Requests: `oracle …` (no response), any function-level op (one response line), `sync`
    (responds `SYNC` on stdout and stderr so the harness can align the two streams). -/
partial def loop (hIn : IO.FS.Stream) (hOut : IO.FS.Stream) (t : Tables) : IO Unit := do
  let line ← hIn.getLine
  if line.isEmpty then return ()
  let ws := (line.trimAscii.toString.splitOn " ").filter (· ≠ "")
  match ws with
  | [] => loop hIn hOut t
  | "oracle" :: rest =>
    match t.addOracle rest with
    | some t' => loop hIn hOut t'
    | none => hOut.putStrLn "BAD-ORACLE"; hOut.flush; loop hIn hOut t
  | ["sync"] =>
    IO.eprintln "SYNC"
    hOut.putStrLn "SYNC"; hOut.flush
    loop hIn hOut t
  | _ =>
    match fnOp t.toEnv ws with
    | some r => hOut.putStrLn r
    | none => hOut.putStrLn "BAD-OP"
    loop hIn hOut t

def main : IO Unit := do
  loop (← IO.getStdin) (← IO.getStdout) {}
