import GoFlags.Bytes
import GoFlags.Env
import GoFlags.Strconv
import GoFlags.Optstyle
import GoFlags.Closest
